#!/usr/bin/env python3
"""
Build the replica shared objects of jedi-pairing from /repo's *current working
tree* (content-hashed: same content => reuse, changed content => rebuild).

usage: build_replicas.py [--flavour plain|san|both] [--repo /repo] [--print-dir]

Replicas (each = all library sources + /verif/adapter/adapter.cpp, same flags):
  A   repo Makefile flags, x86-64 asm, run-time dispatch        (also copied to A2)
  As  A + -mbmi2 -madx  (static BMI2/ADX branch of the arch headers)
  B   A + -DDISABLE_ASM (portable C++, 64-bit words)
  C   B + -U__SIZEOF_INT128__ (portable C++, 32-bit words)
All with -DEMBEDDED_PAIRING_VERIF (the yield hook).
Prints the build directory on stdout (last line).
"""
import concurrent.futures as cf
import fcntl
import glob
import hashlib
import os
import shutil
import subprocess
import sys
import time

VERIF = os.path.dirname(os.path.dirname(os.path.abspath(__file__)))
CXX = os.environ.get("JV_CXX", "clang++")
BASE = ["-std=c++17", "-Ofast", "-fno-vectorize", "-fPIC", "-DEMBEDDED_PAIRING_VERIF", "-fno-omit-frame-pointer"]
REPLICAS = {
    "A": [],
    "As": ["-mbmi2", "-madx", "-mavx2", "-DNDEBUG"],   # the "release" build for this CPU generation: static BMI2/ADX selection, AVX2 enabled, NDEBUG (the unchanged tree has no assert, so this changes nothing there)
    "B": ["-DDISABLE_ASM"],
    "C": ["-DDISABLE_ASM", "-U__SIZEOF_INT128__", "-funsigned-char", "-Os", "-fno-builtin", "-fshort-enums"],   # what the Makefile's Cortex-M0+ section compiles, as far as an x86-64 host can: 32-bit words, -Os -fno-builtin -fshort-enums, plain char unsigned as in the ARM ABIs
    "D": ["@plain", "-DDISABLE_ASM", "-U__SIZEOF_INT128__", "-O0"],   # the debug build: portable code without optimisation (nothing a compiler's use of __restrict, of undefined evaluation order or of dead stores could mask); plain flavour only
    "G": ["@g++"],          # the same sources through the other compiler the Makefile names (g++, asm back end); plain flavour only
}
FLAVOURS = {
    "plain": [],
    "san": ["-fsanitize=address,undefined", "-fno-sanitize-recover=undefined", "-g1"],
    "cov": ["-fprofile-instr-generate", "-fcoverage-mapping", "-O1", "-DJV_COV"],   # source-coverage build for bin/coverage.sh (blind-spot analysis, not a check)
}


def tree_hash(repo):
    h = hashlib.sha256()
    files = []
    for root in (os.path.join(repo, "include"), os.path.join(repo, "src"), os.path.join(VERIF, "adapter")):
        for dp, dn, fn in os.walk(root):
            dn.sort()
            for f in sorted(fn):
                files.append(os.path.join(dp, f))
    files.append(os.path.abspath(__file__))
    for f in files:
        h.update(f.encode())
        h.update(b"\0")
        with open(f, "rb") as fh:
            h.update(fh.read())
        h.update(b"\0")
    h.update(CXX.encode())
    return h.hexdigest()[:16]


def run(cmd):
    p = subprocess.run(cmd, stdout=subprocess.PIPE, stderr=subprocess.STDOUT, text=True)
    return p.returncode, " ".join(cmd), p.stdout


def main():
    flavour = "both"
    repo = "/repo"
    args = sys.argv[1:]
    while args:
        a = args.pop(0)
        if a == "--flavour":
            flavour = args.pop(0)
        elif a == "--repo":
            repo = args.pop(0)
    flavs = ["plain", "san"] if flavour == "both" else [flavour]
    broot = os.path.join(VERIF, "build")
    os.makedirs(broot, exist_ok=True)
    lock = open(os.path.join(broot, ".lock"), "w")
    fcntl.flock(lock, fcntl.LOCK_EX)
    hsh = tree_hash(repo)
    out = os.path.join(broot, "rep-" + hsh)
    need = [f for f in flavs if not os.path.exists(os.path.join(out, f, ".done"))]
    if need:
        t0 = time.time()
        srcs = []
        for d in ("src/core", "src/bls12_381", "src/wkdibe", "src/lqibe", "src/core/arch/x86_64"):
            srcs += sorted(glob.glob(os.path.join(repo, d, "*.cpp")))
        asms = sorted(glob.glob(os.path.join(repo, "src/core/arch/x86_64", "*.s")))
        adapter = os.path.join(VERIF, "adapter", "adapter.cpp")
        jobs = []
        owner = []
        links = []
        for fl in need:
            fdir = os.path.join(out, fl)
            shutil.rmtree(fdir, ignore_errors=True)
            for rep, rflags in REPLICAS.items():
                cxx = CXX
                if fl == "cov" and rep not in ("A", "B", "C"): continue
                if "@plain" in rflags:
                    if fl != "plain": continue
                    rflags = [f for f in rflags if f != "@plain"]
                if "@g++" in rflags:
                    if fl != "plain": continue
                    cxx = "g++"; rflags = [f for f in rflags if f != "@g++"]
                odir = os.path.join(fdir, "obj-" + rep)
                os.makedirs(odir, exist_ok=True)
                objs = []
                flags = [f for f in BASE if not (cxx == "g++" and f == "-fno-vectorize")] + rflags + FLAVOURS[fl] + ["-I" + os.path.join(repo, "include"), "-I" + os.path.join(VERIF, "adapter")]
                for s in srcs + [adapter]:
                    o = os.path.join(odir, os.path.relpath(s, "/").replace("/", "_") + ".o")
                    jobs.append([cxx, "-c"] + flags + [s, "-o", o])
                    owner.append((fl, rep, s))
                    objs.append(o)
                for s in asms:
                    o = os.path.join(odir, os.path.basename(s) + ".o")
                    jobs.append(["as", s, "-o", o])
                    owner.append((fl, rep, s))
                    objs.append(o)
                so = os.path.join(fdir, "libjp_%s.so" % rep)
                links.append(((fl, rep), [cxx, "-shared", "-o", so] + objs + FLAVOURS[fl][:1] + ["-Wl,-z,now", "-Wl,-z,relro", "-Wl,-Bsymbolic", "-Wl,-z,noexecstack"]))
        # A configuration other than the default one that no longer builds is not a reason to stop: the replica is left out and
        # failed_<rep>.txt says which source failed and why (the engine reports it: a violation for the properties that quantify
        # over configurations when a library source is at fault, a harness problem when it is the adapter).
        failed = {}
        with cf.ThreadPoolExecutor(max_workers=int(os.environ.get("JV_JOBS", "16"))) as ex:
            for (rc, cmd, txt), own in zip(ex.map(run, jobs), owner):
                if rc != 0 and (own[0], own[1]) not in failed:
                    failed[(own[0], own[1])] = (own[2], txt)
                    sys.stderr.write("BUILD FAILED (%s/%s): %s\n%s\n" % (own[0], own[1], cmd, txt))
            todo = [(k, c) for k, c in links if k not in failed]
            for (rc, cmd, txt), (k, c) in zip(ex.map(run, [c for k, c in todo]), todo):
                if rc != 0:
                    failed[k] = ("(link)", txt)
                    sys.stderr.write("LINK FAILED (%s/%s): %s\n%s\n" % (k[0], k[1], cmd, txt))
        for (fl, rep), (src, txt) in failed.items():
            if rep == "A":
                sys.exit(3)     # the shipped configuration itself does not build
            with open(os.path.join(out, fl, "failed_%s.txt" % rep), "w") as fh:
                fh.write(src + "\n" + "\n".join(txt.splitlines()[:25]) + "\n")
        for fl in need:
            fdir = os.path.join(out, fl)
            shutil.copyfile(os.path.join(fdir, "libjp_A.so"), os.path.join(fdir, "libjp_A2.so"))
            for rep in REPLICAS:
                shutil.rmtree(os.path.join(fdir, "obj-" + rep), ignore_errors=True)
            open(os.path.join(fdir, ".done"), "w").write("%.1f\n" % (time.time() - t0))
        sys.stderr.write("[build_replicas] built %s in %.1fs -> %s\n" % (",".join(need), time.time() - t0, out))
    # prune old builds (keep the 10 most recent; concurrent checks of other trees may still be loading theirs)
    dirs = sorted(glob.glob(os.path.join(broot, "rep-*")), key=os.path.getmtime, reverse=True)
    os.utime(out, None)
    for d in dirs[10:]:
        if d != out:
            shutil.rmtree(d, ignore_errors=True)
    fcntl.flock(lock, fcntl.LOCK_UN)
    print(out)


if __name__ == "__main__":
    main()
