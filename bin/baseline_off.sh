#!/bin/bash
# Runs the repository's pinned test suite with the verification guard OFF, in a scratch copy
# outside /repo and /verif, and prints one "PASS <name>" / "FAIL <name>" line per test.
set -u
S=$(mktemp -d /tmp/jv-baseline.XXXXXX)
trap 'rm -rf "$S"' EXIT
rsync -a --exclude .git --exclude bin --exclude 'tests/bin' --exclude '*.a' --exclude tests/test /repo/ "$S/"
cd "$S/tests" && make -j16 test >"$S/build.log" 2>&1 || { cat "$S/build.log"; echo "BUILD FAILED"; exit 2; }
./test > "$S/out.txt" 2>&1
python3 - "$S/out.txt" <<'PY'
import re, sys, json
names = set(json.load(open("/root/.vp/BASELINE.json"))["stable_pass"])
res = {}
for line in open(sys.argv[1]):
    m = re.match(r"^(.*?)\.\.\.\s*(PASS|FAIL.*)$", line.strip())
    if m:
        n, r = m.group(1).strip(), m.group(2)
        ok = r == "PASS"
        res[n] = res.get(n, True) and ok
bad = 0
for n in sorted(names):
    if res.get(n) is True: print("PASS", n)
    else: print("FAIL", n); bad += 1
print("%d/%d baseline tests pass with the guard off" % (len(names) - bad, len(names)))
sys.exit(1 if bad else 0)
PY
