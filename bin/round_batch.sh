#!/bin/bash
# usage: bin/round_batch.sh <first> <last> PROP...   (run inside a vp run snapshot: builds the simulator there first)
cd "$(dirname "$0")/.."
make -s -j16 all >/dev/null 2>&1
F=$1; L=$2; shift 2
for p in "$@"; do bin/round.sh $p $(seq $F $L); done
