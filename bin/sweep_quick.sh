#!/bin/bash
# multi-seed quick sweep in a snapshot
make -s -j16 all >/dev/null 2>&1
export JV_REPO=${VP_RUN_REPO:-/repo}
for seed in "$@"; do
  for p in C03 C07 C08 C09 C10 C11 C12 C13 C14 C15 C16 C17 C19 C20; do
    s=$(date +%s)
    out=$(VERIF_SEED=$seed bin/check $p quick 2>&1); rc=$?
    e=$(date +%s)
    echo "SWEEP seed=$seed prop=$p rc=$rc secs=$((e-s))"
    if [ $rc != 0 ]; then echo "$out" | tail -30; fi
  done
done
