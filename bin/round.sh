#!/bin/bash
# usage: bin/round.sh <PROP> <i...>   confirm sub-agent changes in /tmp/wt/<PROP>/_mut/<i> and run the property's quick check against each
cd "$(dirname "$0")/.."
P=$1; shift
for i in "$@"; do
  bin/confirm_mut.sh $P $i 2>&1 | grep -E "CONFIRMED|REJECTED|suite"
  if [ -f seeded/$P-$i/patch.diff ]; then
    ( flock 9; bin/mutcheck seeded/$P-$i/patch.diff $P ${EXTRA:-} 2>&1 | grep -E "oracle:|detail:|MUTCHECK" | cut -c1-300 | sed "s/^/[$P-$i] /" ) 9>/tmp/mutcheck.lock
  fi
done
