#!/bin/bash
# usage: bin/round.sh <PROP> <i...>   confirm sub-agent changes in /tmp/wt/<PROP>/_mut/<i> (unless already kept in /verif/seeded)
# and run the property's quick check against each. Works from /verif or from a vp-run snapshot of it.
cd "$(dirname "$0")/.."
P=$1; shift
for i in "$@"; do
  if [ ! -f /verif/seeded/$P-$i/patch.diff ]; then bin/confirm_mut.sh $P $i 2>&1 | grep -E "CONFIRMED|REJECTED|suite"; fi
  if [ -f /verif/seeded/$P-$i/patch.diff ]; then
    ( flock 9; bin/mutcheck /verif/seeded/$P-$i/patch.diff $P ${EXTRA:-} 2>&1 | grep -E "oracle:|detail:|MUTCHECK" | cut -c1-300 | sed "s/^/[$P-$i] /" ) 9>/tmp/mutcheck.lock
  fi
done
