#!/usr/bin/env python3
"""Writes seeded/<id>/meta.json for the confirmed seeded changes (property, what it needs to manifest, which checks to run)."""
import json, os
ROOT = os.path.dirname(os.path.dirname(os.path.abspath(__file__)))
M = {
 "C03-1": ("C03", "run-time dispatch to the baseline (non-BMI2) Montgomery reduce AND a reduction input whose pre-subtraction top limb equals q's top limb with t < q (2^-61 for random inputs)", ["C03"]),
 "C03-2": ("C03", "portable build (-DDISABLE_ASM, 64- or 32-bit words) AND a subtrahend limb of all ones with an incoming borrow", ["C03"]),
 "C03-3": ("C03", "portable 32-bit-word build only; two cooperating edits, each harmless alone", ["C03"]),
 "C07-1": ("C07", "two threads inside exponentiate_gt with different bases at the same time (static Frobenius table)", ["C07", "C20"]),
 "C07-2": ("C07", "a random stream whose digits recombine to exactly y = r (probability ~2^-127 under honest randomness)", ["C07", "C10"]),
 "C07-3": ("C07", "exponent exactly 0 through the division-free cyclotomic exponentiation", ["C07"]),
 "C08-1": ("C08", "mixed product with an identity pair at index j of the affine list and a non-identity prepared pair at the same index j", ["C08"]),
 "C08-2": ("C08", "two threads evaluating pairings at the same time (static scratch in multiply_by_c014)", ["C08", "C20"]),
 "C08-3": ("C08", "the empty product (both counts zero)", ["C08"]),
 "C09-1": ("C09", "validating decode of an encoding with a flag bit set in the first byte of a later coordinate", ["C09"]),
 "C09-2": ("C09", "three-step sequence on one thread: valid decode, invalid (wrong-subgroup) decode rejected, the same invalid bytes again accepted (stale thread_local cache)", ["C09", "C20"]),
 "C09-3": ("C09", "two threads encoding different elements concurrently (static temporary in Fq::write_big_endian)", ["C09", "C20"]),
 "C10-1": ("C10", "a random stream whose first x candidate lies in the cofactor torsion (x = 0): generator sampler returns the identity", ["C10"]),
 "C10-2": ("C10", "32-bit-word build AND a hash input with its top bit set", ["C10", "C03"]),
 "C10-3": ("C10", "two-step sequence: derive the identity for hash A, then for a hash B that differs from A only in bytes 32..47 (stale one-entry cache)", ["C10", "C20"]),
 "C11-1": ("C11", "qualifykey where the parent's free list runs out before an already-fixed slot that the attribute list repeats", ["C11"]),
 "C11-2": ("C11", "signature support on AND resamplekey(supportFurtherQualification=false) AND a check of bsig (or sign+verify)", ["C11", "C13"]),
 "C11-3": ("C11", "an id >= 2r in the from-list of a non-delegable adjustment on a slot free in the parent", ["C11", "C14"]),
 "C14-1": ("C14", "an id >= 2r in the from list that is deleted or replaced by a smaller residue", ["C14"]),
 "C14-2": ("C14", "a SecretKey object / slot array that still holds entries of an earlier key from another parent, then adjusted to a list that frees more slots", ["C14"]),
 "C14-3": ("C14", "two threads inside precompute() at the same time (static temporary)", ["C14", "C20"]),
 "C20-1": ("C20", "two threads in G2::multiply_frobenius with different bases (static cached tables)", ["C20"]),
 "C20-2": ("C20", "sequence: draws from two streams in both orders / replay with the stream rewound (entropy block kept between calls)", ["C20", "C10"]),
 "C20-3": ("C20", "WKD-IBE parameters with l >= 17 (heap fallback in Params::marshal); the pinned suite uses l = 10", ["C20"]),
 "C15-1": ("C15", "a secret key with exactly 0 free slots", ["C15"]),
 "C15-2": ("C15", "uncompressed encoding AND validating unmarshal AND a key with a free slot AND the corruption inside a free-slot element", ["C15"]),
 "C15-3": ("C15", "two threads marshalling different LQ-IBE Params concurrently (static scratch)", ["C15", "C20"]),
 "C16-1": ("C16", "three-step sequence on one thread: encrypt with params, overwrite the same Params object in place, encrypt to the same identity again (cache keyed by address)", ["C16", "C20"]),
 "C16-2": ("C16", "master key delivered through unmarshal with a scalar >= 2^255", ["C16"]),
 "C16-3": ("C16", "two concurrent callers, B's buffer writes between A's writes and A's hash_fill read (static hash-input buffer)", ["C16", "C20"]),
 "C13-1": ("C13", "a list passed to sign/verify/precompute that contains an entry marked omitFromKeys", ["C13", "C14"]),
 "C13-2": ("C13", "two threads: caller Y's precompute between caller X's precompute and X's read of the shared static", ["C13", "C20"]),
 "C13-3": ("C13", "keygen/qualify -> resamplekey(supportFurtherQualification=false) -> sign a non-zero message -> verify", ["C13", "C11"]),
 "C12-1": ("C12", "multi-step: parent has the slot free; adjust_nondelegable with a to-list that hides the slot; a later qualification assigns it; decrypt a ciphertext with the slot set", ["C12", "C14"]),
 "C12-2": ("C12", "32-bit-word build AND two ids that agree in bits 0..127, differ above bit 127 and have bits 64..127 all zero", ["C12", "C11", "C03"]),
 "C12-3": ("C12", "two concurrent callers: A preempted inside precompute between its first and last attribute term while B completes an encrypt for another list (static memo)", ["C12", "C20"]),
 "C19-1": ("C19", "32-bit-word build (-U__SIZEOF_INT128__): C structs over-aligned relative to the C++ types", ["C19"]),
 "C19-2": ("C19", "uncompressed AND validating AND an invalid encoding through the C point-unmarshal wrappers", ["C19", "C09"]),
 "C19-3": ("C19", "two consecutive C calls of compute_id_from_hash whose hashes share the first 32 bytes (stale cache in the C wrapper only)", ["C19", "C20"]),
 "C17-1": ("C17", "secret-key buffer whose header byte is non-zero but not 1 and whose length matches the no-signature layout; over-read of 48/96 bytes", ["C17", "C15"]),
 "C17-2": ("C17", "LQ-IBE master key marshalled/unmarshalled at a buffer address that is not a multiple of 16", ["C17"]),
 "C17-3": ("C17", "an object whose last element is the point at infinity, re-marshalled in compressed form into an exactly sized buffer", ["C17"]),
}
for k, (prop, needs, checks) in M.items():
    d = os.path.join(ROOT, "seeded", k)
    if not os.path.isdir(d): continue
    meta = {"id": k, "breaks_property": prop, "needs_to_manifest": needs, "source": "independent sub-agent given only the property text and a scratch worktree of /repo",
            "confirmed": "bin/confirm_mut.sh %s %s : patch applies to clean HEAD, pinned suite 71 PASS lines / 0 FAIL with the change, demo exits non-zero with the change and 0 without it" % tuple(k.split("-")),
            "checks_run": ["bin/mutcheck seeded/%s/patch.diff %s" % (k, " ".join(checks))]}
    old = {}
    p = os.path.join(d, "meta.json")
    if os.path.exists(p): old = json.load(open(p))
    if "results" in old: meta["results"] = old["results"]
    json.dump(meta, open(p, "w"), indent=1)
print("ok")
