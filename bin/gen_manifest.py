#!/usr/bin/env python3
"""Writes /verif/MANIFEST.json from the table below (single source of truth for what is claimed)."""
import json, os
ROOT = os.path.dirname(os.path.dirname(os.path.abspath(__file__)))

NA = {
 "C01": "pure function of one call's arguments (P,Q): no schedule, callback, bytes-in-transit, history or configuration in the statement; deciding it needs an independent definition-level oracle, which deterministic simulation does not supply (DESIGN.md section 2/6)",
 "C02": "single-call modular arithmetic; the open cases are 2^-64 operand coincidences, an input-space problem (SMT/bounded model checking), not a fault/schedule problem (DESIGN.md section 6)",
 "C04": "single-call polynomial arithmetic in Fq2/Fq6/Fq12; nothing for a simulator to vary (DESIGN.md section 6)",
 "C05": "single-call group law including exceptional operand pairs; pure function of the two representatives (DESIGN.md section 6)",
 "C06": "[k]P for all k is a pure function; the risky scalars are specific inputs, not faults (DESIGN.md section 6)",
 "C18": "aliasing-independence is a fixed property of each function body, independent of any schedule, stream, history or back end (DESIGN.md section 6)",
}

# property -> (category, technique, level text, level note, design ref, built?)
CLAIMED = {
 "C09": ("fault_enumeration", "deterministic simulation: Byzantine store between encoder and validating/non-validating decoders; enumerated single-fault set + seeded multi-fault sampling; independent wire-format model as oracle",
         "Every named malformation of a point encoding (flag manipulation, non-reduced coordinate, off-curve, wrong subgroup, x without y, malformed identity, wrong form, substituted element) and a flip in every byte is delivered to both decoders for identity, generator and multiples in both groups and both forms; validating decode must accept exactly the byte strings the independent format model calls canonical, and return the point the model parses.",
         "Trusts the replica's field/group arithmetic (curve equation, subgroup test by double-and-add) as the base of the model; the format facts (flag bits, coordinate order, ordering on Montgomery representatives) are written down independently in sim/wire.hpp.", "5/C09", True),
}

def main():
    checks = []
    for pid, (cat, tech, text, note, ref, built) in sorted(CLAIMED.items()):
        if not built: continue
        checks.append({
            "property_id": pid,
            "quick_cmd": "bin/check %s quick" % pid,
            "thorough_cmd": "bin/check %s thorough" % pid,
            "evidence_file": "/verif/evidence/%s.json" % pid,
            "replay_cmd_template": "bin/replay {path}",
            "engine": "jsim",
            "level_claimed": {"category": cat, "text": text, "design_ref": "DESIGN.md section " + ref},
            "level_note": note,
            "technique": tech,
        })
    na = [{"property_id": k, "reason": v} for k, v in sorted(NA.items())]
    props = [json.loads(l)["id"] for l in open(os.path.join(ROOT, "properties.jsonl"))]
    for p in props:
        if p not in NA and not (p in CLAIMED and CLAIMED[p][5]):
            na.append({"property_id": p, "reason": "simulation target per DESIGN.md section 2, but its check is not built yet in this revision of /verif; not claimed until it is"})
    m = {
        "version": 1,
        "setup_cmd": "make -j16 all && python3 bin/build_replicas.py --flavour both >/dev/null && bin/selftest",
        "hooks": {
            "guard": "EMBEDDED_PAIRING_VERIF",
            "enable": "bin/build_replicas.py compiles every replica of /repo's working tree with -DEMBEDDED_PAIRING_VERIF (weak yield callback in Fp::multiply/Fp::square)",
            "baseline_off_cmd": "bin/baseline_off.sh",
            "source_commits": ["42387a9"],
            "add_only": True,
        },
        "engines": [{"name": "jsim", "path": "/verif/sim", "serves_properties": [c["property_id"] for c in checks],
                     "kind_free_text": "deterministic simulator: seeded plans over replica builds of the library (dlopen), simulator-owned random/hash/store/scheduler seams, fault injection, reference models, ddmin shrinking, replay files"}],
        "checks": checks,
        "not_applicable": sorted(na, key=lambda x: x["property_id"]),
        "notes": "See DESIGN.md. Genuine defects found are repaired by 'fix:' commits in /repo and recorded in known_findings.jsonl.",
    }
    json.dump(m, open(os.path.join(ROOT, "MANIFEST.json"), "w"), indent=1)
    print("MANIFEST.json: %d checks, %d not applicable/not claimed" % (len(checks), len(na)))

if __name__ == "__main__":
    main()
