#!/usr/bin/env python3
"""Writes /verif/MANIFEST.json from the table below (single source of truth for what is claimed)."""
import json, os
ROOT = os.path.dirname(os.path.dirname(os.path.abspath(__file__)))

NA = {
 "C01": "pure function of one call's arguments (P,Q): no schedule, callback, bytes-in-transit, history or configuration in the statement; deciding it needs an independent definition-level oracle, which deterministic simulation does not supply (DESIGN.md section 2/6)",
 "C02": "single-call modular arithmetic; the open cases are 2^-64 operand coincidences, an input-space problem (SMT/bounded model checking), not a fault/schedule problem (DESIGN.md section 6)",
 "C04": "single-call polynomial arithmetic in Fq2/Fq6/Fq12; nothing for a simulator to vary (DESIGN.md section 6)",
 "C05": "single-call group law including exceptional operand pairs; pure function of the two representatives (DESIGN.md section 6)",
 "C06": "[k]P for all k is a pure function; the risky scalars are specific inputs, not faults (DESIGN.md section 6)",
 "C18": "aliasing-independence is a fixed property of each function body, independent of any schedule, stream, history or back end (DESIGN.md section 6)",
}

# property -> (category, technique, level text, level note, design ref, built?)
SIM = "deterministic simulation with fault injection: "
TB = "Trusts the replica's field/group arithmetic and pairing value (C01, C02, C04, C05, C06: not applicable here) as the base of the reference models, which use reference paths (double-and-add, generic square-and-multiply), never the fast paths under judgement. Seeded sampling: a clean batch is evidence, not proof. x86-64 only (AArch64/ARMv6-M back ends not executed)."
CLAIMED = {
 "C03": ("exploration", SIM + "seven builds of the library loaded side by side as replicas, plus the AArch64 and ARMv6-M assembly sources run under the simulator's own interpreter as two more, driven in lock-step (register machine over the primitives with boundary constructors, including operands that steer the compare-and-subtract tail of reduction/multiplication/squaring to every depth; whole scheme histories with one random stream); run-time dispatch pointers flipped at seeded yield points inside operations; event logs must be bit-identical",
         "Every primitive op is applied with identical inputs to x86-64 asm with BMI2/ADX dispatch, with baseline dispatch, the static -mbmi2 -DNDEBUG release build, the g++ build, portable 64-bit-word C++ (optimised and as the -O0 debug build) and portable 32-bit-word C++ (plain char unsigned, as in the ARM ABIs), and to the eight hand-written routines of the AArch64 and of the ARMv6-M back end executed by an interpreter of their source text (with a monitor for out-of-operand memory accesses, unaligned accesses, non-Thumb-1 instruction forms and unrestored callee-saved registers); all written registers and carry/borrow flags are compared. Whole scheme histories (marshalled bytes, random-stream consumption) are compared on the native builds. 4 of the 6 configurations run natively, the other 2 at the level of their assembly routines only.",
         "Agreement of all replicas on a wrong value is C02's business and is not detected. The AArch64/ARMv6-M routines are judged through an interpreter written for this task (trusted: its instruction semantics, incl. the pre-UAL Thumb flag rules as GNU as assembles them); their C++ glue headers and everything above the eight routines are represented by the portable build of the same word size.", "5/C03 and 15.1-15.2", True),
 "C07": ("exploration", SIM + "target-group exponentiation driven by the simulator-owned random stream under stream faults (rejection storms, digits at |x|-1 and |x|, tuples recombining to r-1, r, r+1), judged by M-sample and by generic exponentiation; boundary exponents",
         "Claimed for the clause that names the byte stream: gt_multiply_random / random_gt must return the exponent M-sample derives from the recorded request sequence and base^y by two independent paths; fixed-exponent clauses are checked on stream-derived and listed boundary exponents (pure-function part, said so in DESIGN.md).", TB, "5/C07", True),
 "C08": ("exploration", SIM + "histories over long-lived pair-record arrays that are never re-initialised (slices, re-pointing, re-preparing, identities, shared prepared points), product compared with the product of separately computed single pairings",
         "Claimed for the state the property's anchors point at: the per-pair running point and coefficient cursor live in caller-owned records reused across calls. Each product over a history-produced list shape must equal the product of single pairings; prepared equals plain; identities contribute the neutral element.", TB, "5/C08", True),
 "C09": ("fault_enumeration", SIM + "Byzantine store between encoder and validating/non-validating decoders; enumerated single-fault set plus seeded multi-fault sampling; independent wire-format model as oracle",
         "Every named malformation of a point encoding (flag manipulation, non-reduced coordinate, flag bits in later coordinates, off-curve, wrong subgroup, x without y, malformed identity, wrong form, substituted element) and a flip in every byte (every bit in thorough) is delivered to both decoders for identity, generator and multiples in both groups and both forms; validating decode must accept exactly the byte strings the independent format model calls canonical and return the point the model parses.",
         "Trusts the replica's curve equation / subgroup test by double-and-add as the base of the model; the format facts (flag bits, coordinate order, ordering on Montgomery representatives) are written down independently in sim/wire.hpp.", "5/C09", True),
 "C10": ("exploration", SIM + "every sampler and every scheme operation reads a simulator-owned random stream that serves fair bytes, boundary values and rejection storms and records each request; M-sample re-derives value, number and sizes of requests; hash-to-curve re-walked candidate by candidate; bounded-liveness watchdog on the rejection loops; storms of rejected candidates with the call made on a small-stack thread; initialisation order as a schedule dimension (hash-to-scalar entry points called ahead of the library's dynamic initialisers); platform independence by replica comparison",
         "Samplers must return the first accepted candidate of the stream (so an off-by-one acceptance test shows as one extra/missing request), results below the modulus, generators non-identity in the subgroup and equal to cofactor times the selected point; every sampler returns within scripted+256 requests; hash clauses (pure) are checked on boundary and random inputs and across replicas.", TB, "5/C10", True),
 "C11": ("exploration", SIM + "seeded delegation histories (keygen, qualify, non-delegable variants, adjust, resample, marshalling restarts) over slot patterns {free, fixed, hidden}^l on seed-chosen replicas and views; M-wkd tracks the exact randomness of every key from the controlled stream and predicts every key component",
         "After every key-producing step the key must equal the model key component for component (a0, a1, bsig, ascending free-slot list with h_i^rho), satisfy the pairing equation, and it and the master key must decrypt a fresh ciphertext for exactly the accumulated pattern; attribute lists are generated from the parent's pattern so that they are exactly the documented-permitted ones.", TB, "5/C11-C14", True),
 "C12": ("exploration", SIM + "the same histories with negative oracles: every (key, ciphertext) pair with different exponent vectors must not decrypt; attack ops try to fill hidden slots through qualify / non-delegable qualify / adjust / resample-then-qualify; ciphertext components replaced by other valid elements",
         "Negative guarantees judged over history-produced pairs; a false alarm would need a 2^-255 coincidence. Ciphertexts whose encryption randomness is 0 (reachable only through a scripted stream) are exempt: they open for everybody by construction of the scheme.", TB, "5/C11-C14", True),
 "C13": ("exploration", SIM + "signing histories over delegated keys with the signature predicted by M-wkd from the stream; single-field perturbations of message, list and signature; incompatible signers; marshalling hop",
         "Signatures must equal the model signature (a0 = g2^alpha (hsig^m prod)^(rho+s), a1 = g^(rho+s)) and verify; verification must fail for m+1, any list change, an incompatible signer pattern (changed fixed value, hidden slot set) and either component replaced; m and m+r are the same message (scheme over Z_r).", TB, "5/C11-C14", True),
 "C14": ("exploration", SIM + "chains of in-place adjustments of persistent precomputed products and non-delegable keys compared with recomputation from scratch; precomputed and direct encrypt/sign run on the same random stream must be byte-identical; verify and verify_precomputed must agree on every (valid or tampered) signature",
         "adjust_precomputed(from->to) = precompute(to) and adjust_nondelegable = nondelegable_qualifykey(parent,to) component for component, over insertions, deletions, value changes, other representatives mod r, ids >= r, hidden entries, empty lists and chains.", TB, "5/C11-C14", True),
 "C15": ("fault_enumeration", SIM + "objects cross a simulated store as marshalled bytes and are reloaded through the Go wrapper's allocate-then-unmarshal protocol; enumeration of every embedded element x every invalid-encoding kind, truncations, extensions; M-wire layout and length formulas written down independently; run under ASan+UBSan",
         "Marshal writes exactly the reported length, lengths equal the independent format formula and its inverse, bytes equal the independent layout, unmarshal(marshal(x)) is component-wise x (recomputed pairing for compressed parameters) and re-marshals identically; validating unmarshal rejects a buffer iff some embedded G1/G2 element is not a canonical valid encoding (GT bytes, the flag byte and slot indices have no validating form and are not required to be rejected).",
         "Go bindings are represented by a C++ re-implementation of lang/go/*/marshal.go (no Go toolchain). " + TB, "5/C15,C17", True),
 "C16": ("exploration", SIM + "PKG, sender and receiver as simulated parties; the caller's hash and random callbacks are simulator-owned stubs that record every byte; master scalar, keys and ciphertexts cross the store with bit flips; negative variants (other identity, other master, substituted or damaged ciphertext)",
         "Sender and receiver must feed the hash stub identical bytes equal to compressed(Q)||compressed(rP)||GT-bytes(e(Q,[r][s]P)) with r from M-sample; secret key = [s]Q by the reference path also for unreduced master scalars; requested length forwarded unchanged; negative variants must change the hashed bytes.", TB, "5/C16", True),
 "C17": ("fault_enumeration", SIM + "every delivered buffer (valid, truncated to each length, extended, bit-flipped, element-substituted, random junk 1..4096 bytes) x {compressed, uncompressed} x {validating, not} goes to length discovery and unmarshal in exact-size heap blocks under ASan+UBSan(no-recover, incl. alignment); all scenario histories of the other properties also run in that flavour; guard mode places every caller object flush against an inaccessible page on the assembly replicas (assembly is invisible to the sanitizers); dead workers are classified by their sanitizer report",
         "No sanitizer report, and every accepted buffer yields an object that marshals again into a buffer of its own reported length; slot arrays are sized exactly as the Go wrapper sizes them, or (adjustments, one in four) to exactly the final slot count.",
         "Sanitizers see only what executes; uninitialised-value use is not covered (MSan unusable with the uninstrumented libstdc++). " + TB, "5/C15,C17", True),
 "C19": ("other", "ABI/constant tables evaluated inside every replica (static facts, not simulation) + " + SIM + "view refinement: every history executed through the C API and through the C++ API on the same replica with the same stream, event logs (results, random-stream consumption, which requests were filled in the caller's own output object, whether an exception thrown by a callback reaches the caller) must be identical",
         "Layout, alignment, member offsets, coefficient count and exported constants compared in 64- and 32-bit-word, asm and portable replicas; every C function the adapter reaches returns what the C++ operation returns on all arguments the scenarios generate (C API symbols the adapter does not reach are listed in the evidence).",
         "The ABI table is a compile-time fact reported at run time; AArch64/ARMv6-M not covered.", "5/C19", True),
 "C20": ("exploration", SIM + "2-6 real caller threads under a serialising seeded scheduler preempting at a guarded yield hook inside every field multiplication and at the random/hash callbacks; M-solo refinement; mprotect write trap on the replicas' writable image and on shared inputs; libc allocation trap; link-surface audit of the static library built the shipped way (static, not simulation)",
         "Concurrent execution on shared read-only inputs and distinct outputs must give exactly the outputs of running each script alone; any write to library static storage or to a shared input (objects reloaded from durable bytes, attribute lists in the library's own format) after load is a deterministic SIGSEGV; in WKD-IBE histories a const input list that differs after a call is a violation; failing schedules are reported as an explicit, minimised list of preemption decisions; every field-arithmetic primitive is called twice into differently filled outputs and must give the same bytes; the archive's undefined symbols (weak ones included) must be memory primitives and compiler arithmetic helpers in eight build configurations (clang/gcc x asm/portable x 64/32-bit words, the Makefile's embedded flag set -Os -fno-builtin -fshort-enums with both compilers, -O0).",
         "Data races that leave results intact and touch only caller memory the harness did not mark shared are invisible (a serialising scheduler gives TSan nothing to see). Writable-but-never-written static storage is reported in the evidence, not as a violation.", "5/C20 and 15.3-15.4", True),
}

def main():
    checks = []
    for pid, (cat, tech, text, note, ref, built) in sorted(CLAIMED.items()):
        if not built: continue
        checks.append({
            "property_id": pid,
            "quick_cmd": "bin/check %s quick" % pid,
            "thorough_cmd": "bin/check %s thorough" % pid,
            "evidence_file": "/verif/evidence/%s.json" % pid,
            "replay_cmd_template": "bin/replay {path}",
            "engine": "jsim",
            "level_claimed": {"category": cat, "text": text, "design_ref": "DESIGN.md section " + ref},
            "level_note": note,
            "technique": tech,
        })
    na = [{"property_id": k, "reason": v} for k, v in sorted(NA.items())]
    props = [json.loads(l)["id"] for l in open(os.path.join(ROOT, "properties.jsonl"))]
    for p in props:
        if p not in NA and not (p in CLAIMED and CLAIMED[p][5]):
            na.append({"property_id": p, "reason": "simulation target per DESIGN.md section 2, but its check is not built yet in this revision of /verif; not claimed until it is"})
    m = {
        "version": 1,
        "setup_cmd": "make -j16 all && python3 bin/build_replicas.py --flavour both >/dev/null && bin/selftest",
        "hooks": {
            "guard": "EMBEDDED_PAIRING_VERIF",
            "enable": "bin/build_replicas.py compiles every replica of /repo's working tree with -DEMBEDDED_PAIRING_VERIF (weak yield callback in Fp::multiply/Fp::square)",
            "baseline_off_cmd": "bin/baseline_off.sh",
            "source_commits": ["42387a9"],
            "add_only": True,
        },
        "engines": [{"name": "jsim", "path": "/verif/sim", "serves_properties": [c["property_id"] for c in checks],
                     "kind_free_text": "deterministic simulator: seeded plans over replica builds of the library (dlopen), simulator-owned random/hash/store/scheduler seams, fault injection, reference models, ddmin shrinking, replay files"}],
        "checks": checks,
        "not_applicable": sorted(na, key=lambda x: x["property_id"]),
        "notes": "See DESIGN.md. Genuine defects found are repaired by 'fix:' commits in /repo and recorded in known_findings.jsonl.",
    }
    json.dump(m, open(os.path.join(ROOT, "MANIFEST.json"), "w"), indent=1)
    print("MANIFEST.json: %d checks, %d not applicable/not claimed" % (len(checks), len(na)))

if __name__ == "__main__":
    main()
