#!/bin/bash
# usage: bin/confirm_mut.sh <PROP> <i>
# Confirms a sub-agent's change in its scratch worktree /tmp/wt/<PROP>: patch applies to a clean HEAD, the pinned suite
# still passes with it, the demonstration fails with it and passes without it. On success copies it to /verif/seeded/<PROP>-<i>/.
set -u
PROP=$1; I=$2; WT=/tmp/wt/$PROP; M=$WT/_mut/$I
LOG=/tmp/wt/confirm-$PROP-$I.log; : > $LOG
cd $WT || exit 2
git checkout -q -- . ; git apply --check $M/patch.diff >>$LOG 2>&1 || { echo "$PROP-$I: patch does not apply"; exit 1; }
git apply $M/patch.diff
( cd tests && make -j8 test >>$LOG 2>&1 && ./test > $WT/_mut/$I/suite.out 2>&1 ); 
NPASS=$(grep -c "PASS" $WT/_mut/$I/suite.out); NFAIL=$(grep -c "FAIL" $WT/_mut/$I/suite.out)
( cd $M && bash ./build.sh >>$LOG 2>&1 && ./demo > demo.mut.out 2>&1 ); RC_MUT=$?
git checkout -q -- .
( cd $M && bash ./build.sh >>$LOG 2>&1 && ./demo > demo.head.out 2>&1 ); RC_HEAD=$?
( cd tests && rm -rf bin test pairing.a ) 2>/dev/null
echo "$PROP-$I: suite PASS=$NPASS FAIL=$NFAIL demo_with_change_rc=$RC_MUT demo_on_head_rc=$RC_HEAD"
if [ "$NFAIL" = 0 ] && [ "$NPASS" -ge 60 ] && [ $RC_MUT != 0 ] && [ $RC_HEAD = 0 ]; then
  D=/verif/seeded/$PROP-$I; mkdir -p $D; cp $M/patch.diff $D/; cp $M/demo.cpp $M/build.sh $D/ 2>/dev/null; cp $M/README.md $D/AGENT_README.md 2>/dev/null
  echo "CONFIRMED $PROP-$I"
else echo "REJECTED $PROP-$I (see $LOG)"; fi
