#!/bin/bash
# usage: bin/confirm_mut.sh <PROP> <i>
# Confirms a sub-agent's change (/tmp/wt/<PROP>/_mut/<i>) in a private scratch worktree of /repo (the agent's own worktree is only
# read): patch applies to a clean HEAD, the pinned suite still passes with it, the demonstration fails with it and passes
# without it. On success copies it to /verif/seeded/<PROP>-<i>/.
set -u
PROP=$1; I=$2; SRC=/tmp/wt/$PROP/_mut/$I
WT=$(mktemp -d /tmp/jv-confirm.XXXXXX); LOG=/tmp/wt/confirm-$PROP-$I.log; : > $LOG
trap 'git -C /repo worktree remove --force "$WT" >/dev/null 2>&1; rm -rf "$WT"' EXIT
git -C /repo worktree add -q --detach "$WT" HEAD || exit 2
mkdir -p $WT/_mut; cp -r $SRC $WT/_mut/$I; M=$WT/_mut/$I; rm -f $M/demo
cd $WT || exit 2
git apply --check $M/patch.diff >>$LOG 2>&1 || { echo "$PROP-$I: patch does not apply"; exit 1; }
git apply $M/patch.diff
( cd tests && make -j8 test >>$LOG 2>&1 && ./test > $M/suite.out 2>&1 );
NPASS=$(grep -c "PASS" $M/suite.out); NFAIL=$(grep -c "FAIL" $M/suite.out)
( cd $M && bash ./build.sh >>$LOG 2>&1 && ./demo > demo.mut.out 2>&1 ); RC_MUT=$?
git checkout -q -- .
( cd $M && bash ./build.sh >>$LOG 2>&1 && ./demo > demo.head.out 2>&1 ); RC_HEAD=$?
echo "$PROP-$I: suite PASS=$NPASS FAIL=$NFAIL demo_with_change_rc=$RC_MUT demo_on_head_rc=$RC_HEAD"
if [ "$NFAIL" = 0 ] && [ "$NPASS" -ge 60 ] && [ $RC_MUT != 0 ] && [ $RC_HEAD = 0 ]; then
  D=/verif/seeded/$PROP-$I; mkdir -p $D; cp $M/patch.diff $D/; cp $M/demo.cpp $M/build.sh $D/ 2>/dev/null; cp $M/README.md $D/AGENT_README.md 2>/dev/null
  echo "CONFIRMED $PROP-$I"
else echo "REJECTED $PROP-$I (see $LOG)"; fi
