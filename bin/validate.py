#!/opt/veriftools/pyvenv/bin/python
import json, sys, glob, jsonschema
jsonschema.validate(json.load(open('/verif/MANIFEST.json')), json.load(open('/root/.vp/MANIFEST.schema.json'))); print('manifest valid')
sch = json.load(open('/root/.vp/EVIDENCE.schema.json'))
for f in sorted(glob.glob('/verif/evidence/*.json')):
    try: jsonschema.validate(json.load(open(f)), sch); print('valid  ', f)
    except Exception as e: print('INVALID', f, str(e)[:300])
