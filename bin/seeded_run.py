#!/usr/bin/env python3
"""Runs every seeded change against the checks named in its meta.json; records exit codes in meta.json and prints a table."""
import json, os, subprocess, sys, re
ROOT = os.path.dirname(os.path.dirname(os.path.abspath(__file__)))
only = sys.argv[1:]
# results are always recorded in /verif/seeded, also when this runs from a vp-run snapshot of /verif
SEEDED = "/verif/seeded" if os.path.isdir("/verif/seeded") else os.path.join(ROOT, "seeded")
rows = []
for k in sorted(os.listdir(SEEDED)):
    d = os.path.join(SEEDED, k); mp = os.path.join(d, "meta.json")
    if not os.path.exists(mp): continue
    if only and k not in only: continue
    meta = json.load(open(mp)); checks = meta["checks_run"][0].split()[2:]
    out = subprocess.run([os.path.join(ROOT, "bin/mutcheck"), os.path.join(d, "patch.diff")] + checks, capture_output=True, text=True).stdout
    res = dict(re.findall(r"MUTCHECK (\S+) rc=(\d+)", out))
    details = re.findall(r"detail: (.*)", out)
    meta["results"] = {c: ("caught" if res.get(c) == "1" else "not caught (rc=%s)" % res.get(c)) for c in checks}
    meta["first_detail"] = details[0][:300] if details else ""
    json.dump(meta, open(mp, "w"), indent=1)
    rows.append((k, meta["breaks_property"], meta["results"]))
    print(k, meta["results"], flush=True)
