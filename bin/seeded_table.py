#!/usr/bin/env python3
"""Renders the seeded-change results (seeded/*/meta.json) as the markdown table of DESIGN.md section 13."""
import json, os
ROOT = os.path.dirname(os.path.dirname(os.path.abspath(__file__)))
print("| Seeded change | Breaks | Needs, in order to manifest | Checks run -> outcome |")
print("|---|---|---|---|")
for k in sorted(os.listdir(os.path.join(ROOT, "seeded"))):
    mp = os.path.join(ROOT, "seeded", k, "meta.json")
    if not os.path.exists(mp): continue
    m = json.load(open(mp)); res = m.get("results", {})
    out = "; ".join("%s: %s" % (c, "**caught**" if v == "caught" else v) for c, v in res.items()) or "(not run yet)"
    print("| %s | %s | %s | %s |" % (k, m["breaks_property"], m["needs_to_manifest"].replace("|", "/"), out))
