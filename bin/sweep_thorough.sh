#!/bin/bash
# thorough tier of the named properties (default: all claimed), in a snapshot; JV_EVIDENCE_DIR keeps the committed evidence untouched
cd "$(dirname "$0")/.."
make -s -j16 all >/dev/null 2>&1
export JV_REPO=${VP_RUN_REPO:-/repo} JV_EVIDENCE_DIR=$(pwd)/evidence_thorough
PROPS=${@:-C03 C07 C08 C09 C10 C11 C12 C13 C14 C15 C16 C17 C19 C20}
for p in $PROPS; do
  s=$(date +%s); out=$(bin/check $p thorough 2>&1); rc=$?; e=$(date +%s)
  echo "THOROUGH prop=$p rc=$rc secs=$((e-s)) :: $(echo "$out" | grep 'jsim check.*runs' | tail -1)"
  if [ $rc != 0 ]; then echo "$out" | tail -30; fi
done
