#!/bin/bash
# Blind-spot analysis (not a check): source coverage of /repo's library code under the quick tier of every claimed property.
# Builds replicas A, B, C with -fprofile-instr-generate -fcoverage-mapping, runs the quick checks against them, merges the
# counters and prints per-file coverage plus every function of src/ and include/ that was never entered.
# usage: bin/coverage.sh [PROP...]      output: build/cov/report.txt, build/cov/uncovered_functions.txt, build/cov/lines/
set -u
cd "$(dirname "$0")/.."
ROOT=$(pwd); export JV_ROOT=$ROOT VERIF_SEED=${VERIF_SEED:-1}
PROPS=${@:-C03 C07 C08 C09 C10 C11 C12 C13 C14 C15 C16 C17 C19 C20}
make -s -j16 build/jsim >/dev/null || exit 2
export JV_REPO=${JV_REPO:-/repo}
DIR=$(python3 bin/build_replicas.py --flavour cov --repo "$JV_REPO" 2>build/cov.build.log | tail -1)
[ -f "$DIR/cov/.done" ] || { cat build/cov.build.log; exit 2; }
rm -rf build/cov; mkdir -p build/cov/raw
export JV_BUILD_DIR=$DIR JV_REPLICA_FLAVOUR=cov JV_EVIDENCE_DIR=$ROOT/build/cov/evidence LLVM_PROFILE_FILE=$ROOT/build/cov/raw/%8m.profraw
for p in $PROPS; do build/jsim check $p quick --seed $VERIF_SEED --workers 16 2>&1 | tail -1; done
llvm-profdata-14 merge -sparse build/cov/raw/*.profraw -o build/cov/all.profdata || exit 2
OBJ="-object $DIR/cov/libjp_A.so -object $DIR/cov/libjp_B.so -object $DIR/cov/libjp_C.so"
llvm-cov-14 report $DIR/cov/libjp_A.so $OBJ -instr-profile=build/cov/all.profdata -ignore-filename-regex='adapter' > build/cov/report.txt 2>/dev/null
llvm-cov-14 export $DIR/cov/libjp_A.so $OBJ -instr-profile=build/cov/all.profdata -ignore-filename-regex='adapter' -format=lcov > build/cov/all.lcov 2>/dev/null
python3 - "$ROOT/build/cov/all.lcov" > build/cov/uncovered.txt <<'PY'
import sys, re, collections
fn_hits = collections.defaultdict(int); fn_file = {}; cur = None; lines = collections.defaultdict(dict)
for l in open(sys.argv[1]):
    l = l.strip()
    if l.startswith("SF:"): cur = l[3:]
    elif l.startswith("FN:"): ln, name = l[3:].split(",", 1); fn_file.setdefault(name, (cur, int(ln)))
    elif l.startswith("FNDA:"): c, name = l[5:].split(",", 1); fn_hits[name] += int(c)
    elif l.startswith("DA:"): a = l[3:].split(","); n = int(a[0]); lines[cur][n] = lines[cur].get(n, 0) + int(a[1])
print("== functions never entered")
import subprocess
names = sorted(n for n in fn_file if fn_hits[n] == 0)
dem = subprocess.run(["c++filt"], input="\n".join(names), capture_output=True, text=True).stdout.split("\n")
for n, d in zip(names, dem): print("%s:%d  %s" % (fn_file[n][0].replace("/repo/", ""), fn_file[n][1], d))
print("== lines never executed (runs of uncovered lines per file)")
for f in sorted(lines):
    unc = sorted(n for n, c in lines[f].items() if c == 0)
    if not unc: continue
    runs = []; s = p = unc[0]
    for n in unc[1:]:
        if n != p + 1: runs.append((s, p)); s = n
        p = n
    runs.append((s, p))
    print("%s: %s" % (f.replace("/repo/", ""), " ".join("%d-%d" % r if r[0] != r[1] else str(r[0]) for r in runs)))
PY
tail -3 build/cov/report.txt; wc -l build/cov/uncovered.txt
