#!/usr/bin/env python3
"""Regenerates the table of DESIGN.md section 13 (between the table header and the heading of section 14) from seeded/*/meta.json and prints a summary."""
import json, os, re, subprocess
ROOT = os.path.dirname(os.path.dirname(os.path.abspath(__file__)))
def key(k): p, i = k.split("-"); return (p, int(i))
rows = []; tot = own = anyc = 0; missed = []
for k in sorted(os.listdir(os.path.join(ROOT, "seeded")), key=key):
    mp = os.path.join(ROOT, "seeded", k, "meta.json")
    if not os.path.exists(mp): continue
    m = json.load(open(mp)); res = m.get("results", {}); tot += 1
    if res.get(m["breaks_property"]) == "caught": own += 1
    if any(v == "caught" for v in res.values()): anyc += 1
    else: missed.append(k)
    out = "; ".join("%s: %s" % (c, "**caught**" if v == "caught" else v) for c, v in res.items()) or "(not run yet)"
    rows.append("| %s | %s | %s | %s |" % (k, m["breaks_property"], m["needs_to_manifest"].replace("|", "/"), out))
table = "| Seeded change | Breaks | Needs, in order to manifest | Checks run -> outcome |\n|---|---|---|---|\n" + "\n".join(rows) + "\n"
p = os.path.join(ROOT, "DESIGN.md"); s = open(p).read()
a = s.index("| Seeded change | Breaks |"); b = s.index("## 14. How to run")
s = s[:a] + table + "\n\n" + s[b:]
open(p, "w").write(s)
print("%d seeded changes; %d caught by the check of their own property; %d caught by at least one check; not caught: %s" % (tot, own, anyc, missed))
