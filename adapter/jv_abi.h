/*
 * jv_abi.h - flat C ABI exported by every replica build of the library
 * (adapter.cpp is compiled into each replica with that replica's flags).
 * The simulator never includes a library header: it sees opaque, exactly
 * sized blocks and this table of functions. The same X-macro list declares
 * the functions for the adapter and the function-pointer table for the
 * simulator, so both sides agree on every prototype (UBSan's function-type
 * check would otherwise fire on mistyped dlsym casts).
 *
 * Conventions
 *  - view: 0 = C API (embedded_pairing_* symbols, what Go calls),
 *          1 = C++ API (embedded_pairing::... members/functions).
 *  - scalars are 32 little-endian bytes (BigInt<256> memory layout).
 *  - G1/G2/GT/FR projective values are raw library objects whose size is
 *    the same in every configuration (144/288/576/32 bytes); affine points,
 *    prepared points and scheme objects are opaque blocks sized by jv_info.
 */
#ifndef JV_ABI_H_
#define JV_ABI_H_

#include <stddef.h>
#include <stdint.h>

#ifdef __cplusplus
extern "C" {
#endif

typedef void (*jv_rand_fn)(void*, size_t);
typedef void (*jv_hash_fn)(void*, size_t, const void*, size_t);

typedef struct {
    uint8_t id[32];      /* little-endian 256-bit attribute value */
    uint32_t idx;
    uint8_t omit;        /* omitFromKeys */
} jv_attr;

typedef struct {
    const jv_attr* a;
    size_t n;
    int omit_all;        /* omitAllFromKeysUnlessPresent */
    int is_null;         /* pass a NULL list pointer (sign only) */
    const void* native;  /* non-NULL: a list in the library's own format in caller memory (jv_wk_native_list_build); passed to the library as it is, no copy */
} jv_attrs;

enum {
    JV_SZ_G1 = 0, JV_SZ_G2, JV_SZ_GT, JV_SZ_FR, JV_SZ_G1A, JV_SZ_G2A, JV_SZ_G2P,
    JV_SZ_APAIR, JV_SZ_PPAIR,
    JV_SZ_WK_PARAMS, JV_SZ_WK_MSK, JV_SZ_WK_SK, JV_SZ_WK_CT, JV_SZ_WK_SIG, JV_SZ_WK_PRE, JV_SZ_WK_FREESLOT,
    JV_SZ_LQ_PARAMS, JV_SZ_LQ_ID, JV_SZ_LQ_MSK, JV_SZ_LQ_SK, JV_SZ_LQ_CT, JV_SZ_LQ_IDHASH,
    JV_SZ_COUNT
};

typedef struct {
    int word_bits;          /* 64 or 32 */
    int asm_enabled;        /* !DISABLE_ASM */
    int static_bmi2;        /* __BMI2__ defined at build time */
    int hook_enabled;       /* EMBEDDED_PAIRING_VERIF */
    int sanitized;          /* built with ASan/UBSan */
    size_t size[JV_SZ_COUNT];
    size_t align[JV_SZ_COUNT];
} jv_info_t;

/* Element kinds for field access / canonical dumps. */
enum { JV_EK_G1 = 1, JV_EK_G2 = 2, JV_EK_GT = 3, JV_EK_FR = 4, JV_EK_G1A = 5, JV_EK_G2A = 6 };

/* Object kinds + fields for jv_field(). */
enum {
    JV_OK_WK_PARAMS = 1, JV_OK_WK_MSK, JV_OK_WK_SK, JV_OK_WK_CT, JV_OK_WK_SIG, JV_OK_WK_PRE,
    JV_OK_LQ_PARAMS, JV_OK_LQ_ID, JV_OK_LQ_MSK, JV_OK_LQ_SK, JV_OK_LQ_CT
};
enum {
    JV_F_P_G = 0, JV_F_P_G1, JV_F_P_G2, JV_F_P_G3, JV_F_P_PAIRING, JV_F_P_HSIG, JV_F_P_H,
    JV_F_MSK_G2ALPHA = 0,
    JV_F_SK_A0 = 0, JV_F_SK_A1, JV_F_SK_BSIG, JV_F_SK_B,
    JV_F_CT_A = 0, JV_F_CT_B, JV_F_CT_C,
    JV_F_SIG_A0 = 0, JV_F_SIG_A1,
    JV_F_PRE_PRODEXP = 0,
    JV_F_LQP_P = 0, JV_F_LQP_SP,
    JV_F_LQID_Q = 0, JV_F_LQMSK_S = 0, JV_F_LQSK_SQ = 0, JV_F_LQCT_RP = 0
};

/* One row of the C-vs-C++ layout table (C19). */
typedef struct {
    const char* type;
    const char* member;     /* "" for the whole type */
    size_t c_size, cxx_size;
    size_t c_align, cxx_align;
    size_t c_off, cxx_off;
} jv_abi_row;

/* One row of the exported-constant table (C19). */
typedef struct {
    const char* name;
    const void* c_ptr;      /* what the C symbol designates */
    const void* cxx_ptr;    /* the C++ value */
    size_t len;
} jv_const_row;

/* primitive-machine op codes (C03 layer 1) */
enum {
    JV_PR_BI384_ADD = 0, JV_PR_BI384_SUB, JV_PR_BI384_SHL1,
    JV_PR_BI768_MUL, JV_PR_BI768_SQR,
    JV_PR_FP384_ADD, JV_PR_FP384_SUB, JV_PR_FP384_DBL, JV_PR_FP384_REDC, JV_PR_FP384_MUL, JV_PR_FP384_SQR,
    JV_PR_BI256_ADD, JV_PR_BI256_SUB, JV_PR_BI256_SHL1,
    JV_PR_BI512_MUL, JV_PR_BI512_SQR,
    JV_PR_FP256_ADD, JV_PR_FP256_SUB, JV_PR_FP256_DBL, JV_PR_FP256_REDC, JV_PR_FP256_MUL, JV_PR_FP256_SQR,
    JV_PR_FP384_NEG, JV_PR_FP256_NEG,
    JV_PR_BI384_SHL3,   /* x *= 8 by three doublings of one object through the public C++ member, shifted-out bits discarded: the call shape an optimiser may merge or drop if a binding claims more than the routine guarantees */
    JV_PR_COUNT
};

#define JV_FUNCTIONS(X) \
  /* ---- control / introspection ---- */ \
  X(void, jv_info, (jv_info_t* out)) \
  X(int, jv_set_dispatch, (int bmi2)) \
  X(int, jv_get_dispatch, (void)) \
  X(size_t, jv_abi_table, (const jv_abi_row** rows)) \
  X(size_t, jv_const_table, (const jv_const_row** rows)) \
  X(void, jv_const_get, (int ek, int which, void* out)) /* which: 0 zero, 1 generator (EK_GT: 0 one, 1 generator_pairing; EK_FR: 0 group order) */ \
  /* ---- primitive machine (C03) ---- */ \
  X(int, jv_set_entry_mode, (int mode)) \
  X(void, jv_bind_entry_mode, (int* cell)) \
  X(int, jv_prim, (int op, void* out, const void* a, const void* b)) \
  /* ---- model helpers: reference paths, canonical dumps (C++ only) ---- */ \
  X(void, jv_g1_mul_ref, (void* out, const void* in, const uint8_t* k32)) \
  X(void, jv_g2_mul_ref, (void* out, const void* in, const uint8_t* k32)) \
  X(void, jv_g1_mul_ref_wide, (void* out, const void* in, const uint8_t* k, int nbytes)) \
  X(void, jv_g2_mul_ref_wide, (void* out, const void* in, const uint8_t* k, int nbytes)) \
  X(void, jv_gt_pow_ref, (void* out, const void* in, const uint8_t* k32)) \
  X(void, jv_gt_pow_nodiv, (void* out, const void* in, const uint8_t* k32)) \
  X(void, jv_gt_mul, (void* out, const void* a, const void* b)) \
  X(void, jv_gt_sqr_generic, (void* out, const void* a)) \
  X(void, jv_gt_inv_generic, (void* out, const void* a)) \
  X(void, jv_g1_canon, (uint8_t* out97, const void* in)) \
  X(void, jv_g2_canon, (uint8_t* out193, const void* in)) \
  X(void, jv_g1a_canon, (uint8_t* out97, const void* in)) \
  X(void, jv_g2a_canon, (uint8_t* out193, const void* in)) \
  X(int, jv_g1a_status, (const void* in)) /* bit0 infinity, bit1 on curve, bit2 killed by r (reference path) */ \
  X(int, jv_g2a_status, (const void* in)) \
  X(int, jv_fq_legendre, (const uint8_t* le48)) \
  X(int, jv_g1a_from_x, (void* outA, const uint8_t* x48_le_raw, int greater)) /* x: canonical integer, little-endian; returns 0 if no y */ \
  X(int, jv_g2a_from_x, (void* outA, const uint8_t* x96_le_raw, int greater)) /* c0 (48 LE) then c1 (48 LE) */ \
  X(void, jv_g1a_xy, (uint8_t* out96, const void* inA)) /* canonical integers, big-endian x then y */ \
  X(void, jv_g2a_xy, (uint8_t* out192, const void* inA)) /* big-endian x.c1 x.c0 y.c1 y.c0 */ \
  X(void, jv_g1a_set_xy, (void* outA, const uint8_t* be96, int infinity)) \
  X(void, jv_g2a_set_xy, (void* outA, const uint8_t* be192, int infinity)) \
  X(void, jv_g1_clear_cofactor_ref, (void* out, const void* inA)) \
  X(void, jv_g2_clear_cofactor_ref, (void* out, const void* inA)) \
  X(void, jv_decompose_x, (uint64_t* out4, const uint8_t* k32)) \
  X(size_t, jv_wnaf_table_bytes, (int grp, int window)) \
  X(void, jv_wnaf_table_build, (int grp, int window, void* tbl, const void* baseA)) \
  X(void, jv_wnaf_table_mul, (int grp, int window, void* out, void* tbl, const uint8_t* k32, int recoded)) \
  X(void, jv_decompose_x_reuse, (uint64_t* out4, const uint8_t* kprev32, const uint8_t* k32)) \
  X(void, jv_gt_pow_nodiv_width, (void* out, const void* in, const uint8_t* k40, int width)) \
  X(void, jv_g1_scale_z, (void* out, const void* in, const uint8_t* lambda48_le)) /* another Jacobian representative of the same point */ \
  X(void, jv_g2_scale_z, (void* out, const void* in, const uint8_t* lambda48_le)) \
  X(void*, jv_field, (int ok, void* obj, int field, int idx, int* ek)) \
  X(int, jv_wk_params_l, (const void* p)) \
  X(int, jv_wk_params_signatures, (const void* p)) \
  X(void, jv_wk_params_init, (void* p, void* harray, int l)) \
  X(int, jv_wk_sk_l, (const void* sk)) \
  X(int, jv_wk_sk_signatures, (const void* sk)) \
  X(uint32_t, jv_wk_sk_bidx, (const void* sk, int i)) \
  X(void, jv_wk_sk_init, (void* sk, void* barray)) \
  X(void*, jv_wk_sk_barray, (const void* sk)) \
  X(void, jv_wk_sk_set_l, (void* sk, int l)) \
  X(void, jv_wk_sk_set_bidx, (void* sk, int i, uint32_t idx)) \
  X(void, jv_wk_sk_set_barray, (void* sk, void* barray)) \
  X(void, jv_wk_sk_stale_from, (void* dst, const void* src, int l)) \
  X(void, jv_wk_params_set_harray, (void* p, void* harray)) \
  X(void, jv_apair_set, (int view, void* arr, size_t i, const void* g1a, const void* g2a)) \
  X(void, jv_ppair_set, (int view, void* arr, size_t i, const void* g1a, const void* g2p)) \
  X(void, jv_pair_get, (int view, const void* arr, size_t i, int prepared, const void** g1a, const void** g2)) \
  X(size_t, jv_pair_size, (int view, int prepared)) \
  X(size_t, jv_g2p_size, (int view)) \
  X(void, jv_pair_init, (int view, void* arr, size_t n, int prepared)) \
  /* ---- bls12_381 API, both views ---- */ \
  X(void, jv_zp_random, (int view, void* out, jv_rand_fn rnd)) \
  X(void, jv_zp_from_hash, (int view, void* out, const uint8_t* hash32)) \
  X(void, jv_fq_random, (void* out48, jv_rand_fn rnd)) /* C++ only: Fq::random, raw canonical integer LE */ \
  X(void, jv_g1_add, (int view, void* out, const void* a, const void* b)) \
  X(void, jv_g1_add_mixed, (int view, void* out, const void* a, const void* bA)) \
  X(void, jv_g1_negate, (int view, void* out, const void* a)) \
  X(void, jv_g1_double, (int view, void* out, const void* a)) \
  X(void, jv_g1_multiply, (int view, void* out, const void* a, const uint8_t* k32)) \
  X(void, jv_g1_multiply_affine, (int view, void* out, const void* aA, const uint8_t* k32)) \
  X(void, jv_g1_random, (int view, void* out, jv_rand_fn rnd)) \
  X(int, jv_g1_equal, (int view, const void* a, const void* b)) \
  X(void, jv_g1_from_affine, (int view, void* out, const void* aA)) \
  X(void, jv_g1affine_from_projective, (int view, void* outA, const void* a)) \
  X(void, jv_g1affine_negate, (int view, void* outA, const void* aA)) \
  X(void, jv_g1affine_from_hash, (int view, void* outA, const uint8_t* hash48)) \
  X(int, jv_g1affine_equal, (int view, const void* aA, const void* bA)) \
  X(void, jv_g2_add, (int view, void* out, const void* a, const void* b)) \
  X(void, jv_g2_add_mixed, (int view, void* out, const void* a, const void* bA)) \
  X(void, jv_g2_negate, (int view, void* out, const void* a)) \
  X(void, jv_g2_double, (int view, void* out, const void* a)) \
  X(void, jv_g2_multiply, (int view, void* out, const void* a, const uint8_t* k32)) \
  X(void, jv_g2_multiply_affine, (int view, void* out, const void* aA, const uint8_t* k32)) \
  X(void, jv_g2_random, (int view, void* out, jv_rand_fn rnd)) \
  X(int, jv_g2_equal, (int view, const void* a, const void* b)) \
  X(void, jv_g2_from_affine, (int view, void* out, const void* aA)) \
  X(void, jv_g2affine_from_projective, (int view, void* outA, const void* a)) \
  X(void, jv_g2affine_negate, (int view, void* outA, const void* aA)) \
  X(void, jv_g2affine_from_hash, (int view, void* outA, const uint8_t* hash96)) \
  X(int, jv_g2affine_equal, (int view, const void* aA, const void* bA)) \
  X(void, jv_g2prepared_prepare, (int view, void* outP, const void* aA)) \
  X(int, jv_g2prepared_is_zero, (int view, const void* p)) \
  X(void, jv_gt_add, (int view, void* out, const void* a, const void* b)) \
  X(void, jv_gt_negate, (int view, void* out, const void* a)) \
  X(void, jv_gt_double, (int view, void* out, const void* a)) \
  X(void, jv_gt_multiply, (int view, void* out, const void* a, const uint8_t* k32)) \
  X(void, jv_gt_multiply_random, (int view, void* out, void* outk, const void* base, jv_rand_fn rnd)) \
  X(int, jv_gt_equal, (int view, const void* a, const void* b)) \
  X(void, jv_pairing, (int view, void* out, const void* g1a, const void* g2a)) \
  X(void, jv_prepared_pairing, (int view, void* out, const void* g1a, const void* g2p)) \
  X(void, jv_pairing_sum, (int view, void* out, void* apairs, size_t na, void* ppairs, size_t np)) \
  X(size_t, jv_point_marshalled_size, (int view, int ek, int compressed)) /* ek: G1A, G2A, GT */ \
  X(void, jv_g1_marshal, (int view, void* buf, const void* aA, int compressed)) \
  X(int, jv_g1_unmarshal, (int view, void* outA, const void* buf, int compressed, int checked)) \
  X(void, jv_g2_marshal, (int view, void* buf, const void* aA, int compressed)) \
  X(int, jv_g2_unmarshal, (int view, void* outA, const void* buf, int compressed, int checked)) \
  X(void, jv_gt_marshal, (int view, void* buf, const void* a)) \
  X(void, jv_gt_unmarshal, (int view, void* out, const void* buf)) \
  /* ---- wkdibe API, both views ---- */ \
  X(void, jv_wk_scalar_hash_reduce, (int view, void* x)) \
  X(int, jv_early_probe_check, (void)) \
  X(void, jv_wk_random_zpstar, (int view, void* x, jv_rand_fn rnd)) \
  X(void, jv_wk_random_zpstar_powers, (uint64_t* c4, void* x, jv_rand_fn rnd)) /* C++ only overload */ \
  X(void, jv_wk_random_g1, (int view, void* out, jv_rand_fn rnd)) \
  X(void, jv_wk_random_g2, (int view, void* out, jv_rand_fn rnd)) \
  X(void, jv_wk_random_gt, (int view, void* out, jv_rand_fn rnd)) \
  X(void, jv_wk_setup, (int view, void* params, void* msk, int l, int signatures, jv_rand_fn rnd)) \
  X(void, jv_wk_keygen, (int view, void* sk, const void* params, const void* msk, const jv_attrs* attrs, jv_rand_fn rnd)) \
  X(void, jv_wk_qualifykey, (int view, void* out, const void* params, const void* sk, const jv_attrs* attrs, jv_rand_fn rnd)) \
  X(void, jv_wk_nd_keygen, (int view, void* sk, const void* params, const void* msk, const jv_attrs* attrs)) \
  X(void, jv_wk_nd_qualifykey, (int view, void* out, const void* params, const void* sk, const jv_attrs* attrs)) \
  X(void, jv_wk_adjust_nd, (int view, void* sk, const void* parent, const jv_attrs* from, const jv_attrs* to)) \
  X(void, jv_wk_precompute, (int view, void* pre, const void* params, const jv_attrs* attrs)) \
  X(void, jv_wk_adjust_precomputed, (int view, void* pre, const void* params, const jv_attrs* from, const jv_attrs* to)) \
  X(void, jv_wk_resamplekey, (int view, void* out, const void* params, const void* pre, const void* sk, int further, jv_rand_fn rnd)) \
  X(void, jv_wk_encrypt, (int view, void* ct, const void* msg, const void* params, const jv_attrs* attrs, jv_rand_fn rnd)) \
  X(void, jv_wk_encrypt_precomputed, (int view, void* ct, const void* msg, const void* params, const void* pre, jv_rand_fn rnd)) \
  X(void, jv_wk_decrypt, (int view, void* msg, const void* ct, const void* sk)) \
  X(void, jv_wk_decrypt_master, (int view, void* msg, const void* ct, const void* msk)) \
  X(void, jv_wk_sign, (int view, void* sig, const void* params, const void* sk, const jv_attrs* attrs, const uint8_t* m32, jv_rand_fn rnd)) \
  X(void, jv_wk_sign_precomputed, (int view, void* sig, const void* params, const void* sk, const jv_attrs* attrs, const void* pre, const uint8_t* m32, jv_rand_fn rnd)) \
  X(int, jv_wk_verify, (int view, const void* params, const jv_attrs* attrs, const void* sig, const uint8_t* m32)) \
  X(int, jv_wk_verify_precomputed, (int view, const void* params, const void* pre, const void* sig, const uint8_t* m32)) \
  X(void, jv_wk_marshal, (int view, int ok, void* buf, const void* obj, int compressed)) \
  X(int, jv_wk_unmarshal, (int view, int ok, void* obj, const void* buf, int compressed, int checked)) \
  X(size_t, jv_wk_native_list_bytes, (int view, size_t n)) \
  X(void, jv_wk_native_list_build, (int view, void* mem, const jv_attrs* in)) \
  X(void, jv_wk_native_list_alias, (int view, void* hdr, const void* other_native, size_t n)) \
  X(int, jv_wk_set_length, (int view, int ok, void* obj, const void* buf, size_t len, int compressed)) \
  X(size_t, jv_wk_get_marshalled_length, (int view, int ok, const void* obj, int compressed)) \
  X(int, jv_wk_unmarshalled_length, (int view, int ok, const void* buf, size_t len, int compressed)) \
  X(size_t, jv_wk_marshalled_length, (int view, int ok, int length, int signatures, int compressed)) \
  /* ---- lqibe API, both views ---- */ \
  X(void, jv_lq_compute_id_from_hash, (int view, void* id, const uint8_t* hash48)) \
  X(void, jv_lq_setup, (int view, void* params, void* msk, jv_rand_fn rnd)) \
  X(void, jv_lq_keygen, (int view, void* sk, const void* msk, const void* id)) \
  X(void, jv_lq_encrypt, (int view, void* ct, void* sym, size_t symlen, const void* params, const void* id, jv_hash_fn h, jv_rand_fn rnd)) \
  X(void, jv_lq_decrypt, (int view, void* sym, size_t symlen, const void* ct, const void* sk, const void* id, jv_hash_fn h)) \
  X(void, jv_lq_marshal, (int view, int ok, void* buf, const void* obj, int compressed)) \
  X(int, jv_lq_unmarshal, (int view, int ok, void* obj, const void* buf, int compressed, int checked)) \
  X(size_t, jv_lq_get_marshalled_length, (int view, int ok, int compressed))

#define JV_DECLARE(ret, name, args) ret name args;
JV_FUNCTIONS(JV_DECLARE)
#undef JV_DECLARE

#ifdef __cplusplus
}
#endif

#endif
