/*
 * adapter.cpp - verification adapter compiled into every replica build of
 * jedi-pairing. Exposes the flat ABI of jv_abi.h on top of (a) the C API and
 * (b) the C++ API of the library, plus reference paths and canonical dumps
 * for the simulator's models. This file is verification code, not library
 * code; it may include library headers, the simulator proper may not.
 */
#define private public          /* AffinePair::r, PreparedPair::coeff_idx for the layout table */
#include <new>
#include "bls12_381/pairing.hpp"
#undef private

#include <stddef.h>
#include <stdint.h>
#include <string.h>

#include "core/bigint.hpp"
#include "core/fp.hpp"
#include "core/fp_utils.hpp"
#include "bls12_381/fr.hpp"
#include "bls12_381/fq.hpp"
#include "bls12_381/fq2.hpp"
#include "bls12_381/fq6.hpp"
#include "bls12_381/fq12.hpp"
#include "bls12_381/curve.hpp"
#include "bls12_381/decomposition.hpp"
#include "bls12_381/wnaf.hpp"
#include <type_traits>
#include "wkdibe/api.hpp"
#include "lqibe/api.hpp"

#include "bls12_381/bls12_381.h"
#include "wkdibe/wkdibe.h"
#include "lqibe/lqibe.h"

#include "jv_abi.h"

namespace ep = embedded_pairing;
namespace bls = embedded_pairing::bls12_381;
namespace wk = embedded_pairing::wkdibe;
namespace lq = embedded_pairing::lqibe;
using ep::core::BigInt;
using ep::core::FpBase;
using bls::Fq; using bls::Fq2; using bls::Fq12; using bls::Fr;
using bls::G1; using bls::G2; using bls::G1Affine; using bls::G2Affine; using bls::G2Prepared;

/* The division-free exponentiation is a template over the exponent's width; BigInt<bits> is a union rounded up to whole native double
   words, so widths that are not a multiple of it carry padding. The exponent object here was used before: its padding holds ones. */
/* the C++-only public API of wnaf.hpp: a table the caller builds once and then multiplies from (possibly from several threads) */
template <typename G, typename GA, unsigned W> static void wnaf_tbl_build(void* tbl, const void* baseA) { static_cast<bls::WnafTable<G, W>*>(tbl)->fill_table(*static_cast<const GA*>(baseA)); }
template <typename G, typename GA, unsigned W> static void wnaf_tbl_mul(void* out, void* tbl, const uint8_t* k32, int recoded) {
    BigInt<256> k; for (int i = 0; i < 32; i++) k.bytes[i] = k32[i];
    bls::WnafTable<G, W>& t = *static_cast<bls::WnafTable<G, W>*>(tbl); G r;
    if (recoded) { bls::WnafScalar<256, W> s; s.from_bigint(k); bls::wnaf_table_multiply(r, t, s); }
    else bls::wnaf_multiply<G, GA, 256, W>(r, t, k);
    static_cast<G*>(out)->copy(r);
}
template <int W> static void pow_nodiv_w(Fq12& t, const Fq12& a, const uint8_t* k) {
    alignas(16) uint8_t raw[sizeof(BigInt<W>)]; memset(raw, 0xFF, sizeof(raw));
    BigInt<W>* e = reinterpret_cast<BigInt<W>*>(raw); memcpy(e->bytes, k, BigInt<W>::byte_length);
    t.template exponentiate_gt_nodiv<BigInt<W>>(a, *e);
}

#if !defined(DISABLE_ASM) && (defined(__x86_64__) || defined(_M_X64_))
#define JV_X86_ASM 1
/* The six dispatch targets, named by symbol only (asm labels): the adapter does not repeat - and so cannot contradict - the prototypes the
   library's own headers declare for them; whatever those say, these are the routines the dispatch table may point at. */
extern "C" {
    void jv_sym_redc(void) __asm__("embedded_pairing_core_arch_x86_64_fpbase_384_montgomery_reduce");
    void jv_sym_redc_bmi2(void) __asm__("embedded_pairing_core_arch_x86_64_bmi2_adx_fpbase_384_montgomery_reduce");
    void jv_sym_mul(void) __asm__("embedded_pairing_core_arch_x86_64_bigint_768_multiply");
    void jv_sym_mul_bmi2(void) __asm__("embedded_pairing_core_arch_x86_64_bmi2_adx_bigint_768_multiply");
    void jv_sym_sqr(void) __asm__("embedded_pairing_core_arch_x86_64_bigint_768_square");
    void jv_sym_sqr_bmi2(void) __asm__("embedded_pairing_core_arch_x86_64_bmi2_adx_bigint_768_square");
}
#define JV_AS(ptr, sym) reinterpret_cast<decltype(ptr)>(&sym)
/* Entry-state poisoning for the hand-written x86-64 routines. The System V ABI leaves the arithmetic flags and the caller-saved
   registers undefined at a call: a routine that consumes CF/OF (an adcx/adox chain started without clearing them) or a scratch register it
   never wrote works only as long as its callers happen to leave them clear. jv_x86_tramp calls fn(a0,a1,a2,a3) with CF and OF as chosen
   by flagsel (bit 0 = CF, bit 1 = OF; SF, ZF, PF always set), junk in rax, r8-r10, sentinels in the callee-saved registers, and reports
   (jv_x86_tramp_fault) a callee-saved register or the direction flag that does not come back as it went in. */
extern "C" uint64_t jv_x86_tramp(void* fn, const void* a0, const void* a1, const void* a2, uint64_t a3, uint64_t flagsel);
extern "C" { volatile uint64_t jv_x86_tramp_fault = 0; }
asm(R"(
    .text
    .globl jv_x86_tramp
    .type jv_x86_tramp, @function
jv_x86_tramp:
    push %rbx
    push %rbp
    push %r12
    push %r13
    push %r14
    push %r15
    sub $8, %rsp
    mov %rdi, %r11
    mov %r9, %r10
    mov %rsi, %rdi
    mov %rdx, %rsi
    mov %rcx, %rdx
    mov %r8, %rcx
    movabs $0x5151515151515151, %rbx
    mov %rbx, %rbp
    mov %rbx, %r12
    mov %rbx, %r13
    mov %rbx, %r14
    mov %rbx, %r15
    mov %r10, %rax
    and $1, %eax
    or $0xC4, %eax
    shl $8, %eax
    test $2, %r10
    jz 1f
    mov $0x7fffffff, %r10d
    add $1, %r10d
    jmp 2f
1:  xor %r10d, %r10d
2:  sahf
    movabs $0xA5A5A5A5A5A5A5A5, %r8
    mov %r8, %r9
    mov %r8, %r10
    mov %r8, %rax
    call *%r11
    mov %rax, %r10
    movabs $0x5151515151515151, %r11
    xor %eax, %eax
    cmp %r11, %rbx
    jne 3f
    cmp %r11, %rbp
    jne 3f
    cmp %r11, %r12
    jne 3f
    cmp %r11, %r13
    jne 3f
    cmp %r11, %r14
    jne 3f
    cmp %r11, %r15
    jne 3f
    pushfq
    pop %r11
    test $0x400, %r11
    jz 4f
    cld
    mov $2, %eax
    jmp 5f
3:  mov $1, %eax
5:  mov %rax, jv_x86_tramp_fault(%rip)
4:  mov %r10, %rax
    add $8, %rsp
    pop %r15
    pop %r14
    pop %r13
    pop %r12
    pop %rbp
    pop %rbx
    ret
    .size jv_x86_tramp, .-jv_x86_tramp
)");
#else
#define JV_X86_ASM 0
#endif

#define A1(p) (*static_cast<const G1*>(p))
#define A2(p) (*static_cast<const G2*>(p))
#define AT(p) (*static_cast<const Fq12*>(p))
#define AA1(p) (*static_cast<const G1Affine*>(p))
#define AA2(p) (*static_cast<const G2Affine*>(p))
#define O1(p) (*static_cast<G1*>(p))
#define O2(p) (*static_cast<G2*>(p))
#define OT(p) (*static_cast<Fq12*>(p))
#define OA1(p) (*static_cast<G1Affine*>(p))
#define OA2(p) (*static_cast<G2Affine*>(p))

static inline void load256(BigInt<256>& k, const uint8_t* b) { memcpy(k.bytes, b, 32); }

/* C-view casts */
typedef embedded_pairing_bls12_381_g1_t cg1; typedef embedded_pairing_bls12_381_g2_t cg2;
typedef embedded_pairing_bls12_381_g1affine_t cg1a; typedef embedded_pairing_bls12_381_g2affine_t cg2a;
typedef embedded_pairing_bls12_381_fq12_t cgt; typedef embedded_pairing_core_bigint_256_t c256;
typedef embedded_pairing_bls12_381_g2prepared_t cg2p;

template <typename P, int bits>
static void mul_ref_bits(P& out, const P& in, const uint8_t* k) {
    BigInt<bits> s; memcpy(s.bytes, k, bits / 8);
    P base; base.copy(in);
    out.multiply_doubleadd_restrict(base, s);
}

template <typename Aff, typename Proj>
static int affine_status(const Aff& a) {
    int s = 0;
    if (a.infinity) return 1 | 2 | 4;
    if (a.is_on_curve()) s |= 2;
    Proj t; Aff base; base.copy(a);
    t.multiply_doubleadd_restrict(base, Fr::p_value);
    if (t.is_zero()) s |= 4;
    return s;
}

extern "C" {

/* ------------------------------------------------------------------ info */

void jv_info(jv_info_t* out) {
    memset(out, 0, sizeof(*out));
    out->word_bits = (int) (sizeof(BigInt<384>::word_t) * 8);
#ifdef DISABLE_ASM
    out->asm_enabled = 0;
#else
    out->asm_enabled = 1;
#endif
#ifdef __BMI2__
    out->static_bmi2 = 1;
#endif
#ifdef EMBEDDED_PAIRING_VERIF
    out->hook_enabled = 1;
#endif
#if defined(__SANITIZE_ADDRESS__)
    out->sanitized = 1;
#elif defined(__has_feature)
#if __has_feature(address_sanitizer)
    out->sanitized = 1;
#endif
#endif
#define SZ(k, T) out->size[k] = sizeof(T); out->align[k] = alignof(T)
    SZ(JV_SZ_G1, G1); SZ(JV_SZ_G2, G2); SZ(JV_SZ_GT, Fq12); SZ(JV_SZ_FR, BigInt<256>);
    SZ(JV_SZ_G1A, G1Affine); SZ(JV_SZ_G2A, G2Affine); SZ(JV_SZ_G2P, G2Prepared);
    SZ(JV_SZ_APAIR, bls::AffinePair); SZ(JV_SZ_PPAIR, bls::PreparedPair);
    SZ(JV_SZ_WK_PARAMS, wk::Params); SZ(JV_SZ_WK_MSK, wk::MasterKey); SZ(JV_SZ_WK_SK, wk::SecretKey);
    SZ(JV_SZ_WK_CT, wk::Ciphertext); SZ(JV_SZ_WK_SIG, wk::Signature); SZ(JV_SZ_WK_PRE, wk::Precomputed);
    SZ(JV_SZ_WK_FREESLOT, wk::FreeSlot);
    SZ(JV_SZ_LQ_PARAMS, lq::Params); SZ(JV_SZ_LQ_ID, lq::ID); SZ(JV_SZ_LQ_MSK, lq::MasterKey);
    SZ(JV_SZ_LQ_SK, lq::SecretKey); SZ(JV_SZ_LQ_CT, lq::Ciphertext); SZ(JV_SZ_LQ_IDHASH, lq::IDHash);
#undef SZ
}

int jv_set_dispatch(int bmi2) {
#if JV_X86_ASM && !defined(__BMI2__)
    if (bmi2) {
        ep::core::runtime_fpbase_384_montgomery_reduce = JV_AS(ep::core::runtime_fpbase_384_montgomery_reduce, jv_sym_redc_bmi2);
        ep::core::runtime_bigint_768_multiply = JV_AS(ep::core::runtime_bigint_768_multiply, jv_sym_mul_bmi2);
        ep::core::runtime_bigint_768_square = JV_AS(ep::core::runtime_bigint_768_square, jv_sym_sqr_bmi2);
    } else {
        ep::core::runtime_fpbase_384_montgomery_reduce = JV_AS(ep::core::runtime_fpbase_384_montgomery_reduce, jv_sym_redc);
        ep::core::runtime_bigint_768_multiply = JV_AS(ep::core::runtime_bigint_768_multiply, jv_sym_mul);
        ep::core::runtime_bigint_768_square = JV_AS(ep::core::runtime_bigint_768_square, jv_sym_sqr);
    }
    return 0;
#else
    (void) bmi2;
    return -1;
#endif
}

/* 1 = all three pointers BMI2/ADX, 0 = all baseline, 2 = mixed, -1 = no run-time dispatch */
int jv_get_dispatch(void) {
#if JV_X86_ASM && !defined(__BMI2__)
    int n = 0;
    if ((void*) ep::core::runtime_fpbase_384_montgomery_reduce == (void*) &jv_sym_redc_bmi2) n++;
    if ((void*) ep::core::runtime_bigint_768_multiply == (void*) &jv_sym_mul_bmi2) n++;
    if ((void*) ep::core::runtime_bigint_768_square == (void*) &jv_sym_sqr_bmi2) n++;
    return n == 3 ? 1 : (n == 0 ? 0 : 2);
#else
    return -1;
#endif
}

void jv_const_get(int ek, int which, void* out) {
    switch (ek) {
    case JV_EK_G1: memcpy(out, which ? &G1::one : &G1::zero, sizeof(G1)); break;
    case JV_EK_G2: memcpy(out, which ? &G2::one : &G2::zero, sizeof(G2)); break;
    case JV_EK_GT: memcpy(out, which ? &bls::generator_pairing : &Fq12::one, sizeof(Fq12)); break;
    case JV_EK_FR: memcpy(out, &Fr::p_value, 32); break;
    case JV_EK_G1A: memcpy(out, which ? &G1Affine::generator : &G1Affine::zero, sizeof(G1Affine)); break;
    case JV_EK_G2A: memcpy(out, which ? &G2Affine::generator : &G2Affine::zero, sizeof(G2Affine)); break;
    }
}

/* ------------------------------------------------- primitive machine (C03) */

/*
 * Operands are raw little-endian limbs: 48 bytes (384), 96 bytes (768),
 * 32 bytes (256), 64 bytes (512). The return value carries the carry/borrow/
 * shifted-out bit where the routine has one. out may alias a.
 */
/* 0: through the C++ methods; 1..4: the assembly routine itself through jv_x86_tramp with flagsel = mode-1. The cell lives in the simulator's memory
   (bound once, right after load): switching modes must not be a write to this module's own image, which the C20 check write-protects. */
static int g_entry_mode_local = 0; static int* g_entry_mode_p = &g_entry_mode_local;
#define g_entry_mode (*g_entry_mode_p)
void jv_bind_entry_mode(int* cell) { if (cell) { *cell = 0; g_entry_mode_p = cell; } }
int jv_set_entry_mode(int mode) { g_entry_mode = JV_X86_ASM ? mode : 0; return JV_X86_ASM; }
int jv_prim(int op, void* out, const void* a, const void* b) {
#if JV_X86_ASM
    if (g_entry_mode) {
        const BigInt<384>& qq = Fq::p_value; uint64_t fs = (uint64_t) (g_entry_mode - 1), inv = Fq::inv_value.words[0], rv; void* fn = nullptr; int kind = 0;   /* kind 1: returns a carry flag */
        switch (op) {
        case JV_PR_BI384_ADD: fn = (void*) embedded_pairing_core_arch_x86_64_bigint_384_add; rv = jv_x86_tramp(fn, out, a, b, 0, fs); kind = 1; break;
        case JV_PR_BI384_SUB: fn = (void*) embedded_pairing_core_arch_x86_64_bigint_384_subtract; rv = jv_x86_tramp(fn, out, a, b, 0, fs); kind = 1; break;
        case JV_PR_BI384_SHL1: fn = (void*) embedded_pairing_core_arch_x86_64_bigint_384_multiply2; rv = jv_x86_tramp(fn, out, a, nullptr, 0, fs); kind = 2; break;
#ifdef __BMI2__
        case JV_PR_BI768_MUL: fn = (void*) &jv_sym_mul_bmi2; rv = jv_x86_tramp(fn, out, a, b, 0, fs); break;
        case JV_PR_BI768_SQR: fn = (void*) &jv_sym_sqr_bmi2; rv = jv_x86_tramp(fn, out, a, nullptr, 0, fs); break;
        case JV_PR_FP384_REDC: { BigInt<768> tmp; memcpy(&tmp, a, 96); fn = (void*) &jv_sym_redc_bmi2; rv = jv_x86_tramp(fn, out, &tmp, &qq, inv, fs); break; }
#else
        case JV_PR_BI768_MUL: fn = (void*) ep::core::runtime_bigint_768_multiply; rv = jv_x86_tramp(fn, out, a, b, 0, fs); break;
        case JV_PR_BI768_SQR: fn = (void*) ep::core::runtime_bigint_768_square; rv = jv_x86_tramp(fn, out, a, nullptr, 0, fs); break;
        case JV_PR_FP384_REDC: { BigInt<768> tmp; memcpy(&tmp, a, 96); fn = (void*) ep::core::runtime_fpbase_384_montgomery_reduce; rv = jv_x86_tramp(fn, out, &tmp, &qq, inv, fs); break; }
#endif
        case JV_PR_FP384_ADD: fn = (void*) embedded_pairing_core_arch_x86_64_fpbase_384_add; rv = jv_x86_tramp(fn, out, a, b, (uint64_t) (uintptr_t) &qq, fs); break;
        case JV_PR_FP384_SUB: fn = (void*) embedded_pairing_core_arch_x86_64_fpbase_384_subtract; rv = jv_x86_tramp(fn, out, a, b, (uint64_t) (uintptr_t) &qq, fs); break;
        case JV_PR_FP384_DBL: fn = (void*) embedded_pairing_core_arch_x86_64_fpbase_384_multiply2; rv = jv_x86_tramp(fn, out, a, &qq, 0, fs); break;
        default: break;
        }
        if (fn) {
            if (jv_x86_tramp_fault) { jv_x86_tramp_fault = 0; return -78; }
            return kind == 1 ? ((rv & 0xFF) ? 1 : 0) : kind == 2 ? (rv != 0 ? 1 : 0) : 0;
        }
    }
#endif
    typedef BigInt<384> B384; typedef BigInt<768> B768; typedef BigInt<256> B256; typedef BigInt<512> B512;
    typedef FpBase<384> F384; typedef FpBase<256> F256;
    const B384& q = Fq::p_value; const B256& r = Fr::p_value;
    switch (op) {
    case JV_PR_BI384_ADD: return static_cast<B384*>(out)->add(*static_cast<const B384*>(a), *static_cast<const B384*>(b)) ? 1 : 0;
    case JV_PR_BI384_SUB: return static_cast<B384*>(out)->subtract(*static_cast<const B384*>(a), *static_cast<const B384*>(b)) ? 1 : 0;
    case JV_PR_BI384_SHL1: return static_cast<B384*>(out)->shift_left_in_word<1>(*static_cast<const B384*>(a)) != 0 ? 1 : 0;
    case JV_PR_BI384_SHL3: { B384 t; t.copy(*static_cast<const B384*>(a)); t.shift_left_in_word<1>(t); t.shift_left_in_word<1>(t); t.shift_left_in_word<1>(t); static_cast<B384*>(out)->copy(t); return 0; }
    case JV_PR_BI768_MUL: static_cast<B768*>(out)->multiply(*static_cast<const B384*>(a), *static_cast<const B384*>(b)); return 0;
    case JV_PR_BI768_SQR: static_cast<B768*>(out)->square(*static_cast<const B384*>(a)); return 0;
    case JV_PR_FP384_ADD: static_cast<F384*>(out)->add(*static_cast<const F384*>(a), *static_cast<const F384*>(b), q); return 0;
    case JV_PR_FP384_SUB: static_cast<F384*>(out)->subtract(*static_cast<const F384*>(a), *static_cast<const F384*>(b), q); return 0;
    case JV_PR_FP384_DBL: static_cast<F384*>(out)->multiply2(*static_cast<const F384*>(a), q); return 0;
    case JV_PR_FP384_NEG: static_cast<F384*>(out)->negate(*static_cast<const F384*>(a), q); return 0;
    case JV_PR_FP384_REDC: {
        B768 tmp; memcpy(&tmp, a, 96);
        static_cast<F384*>(out)->montgomery_reduce(tmp, q, Fq::inv_value.words[0]); return 0;
    }
    case JV_PR_FP384_MUL: static_cast<F384*>(out)->multiply(*static_cast<const F384*>(a), *static_cast<const F384*>(b), q, Fq::inv_value.words[0]); return 0;
    case JV_PR_FP384_SQR: static_cast<F384*>(out)->square(*static_cast<const F384*>(a), q, Fq::inv_value.words[0]); return 0;
    case JV_PR_BI256_ADD: return static_cast<B256*>(out)->add(*static_cast<const B256*>(a), *static_cast<const B256*>(b)) ? 1 : 0;
    case JV_PR_BI256_SUB: return static_cast<B256*>(out)->subtract(*static_cast<const B256*>(a), *static_cast<const B256*>(b)) ? 1 : 0;
    case JV_PR_BI256_SHL1: return static_cast<B256*>(out)->shift_left_in_word<1>(*static_cast<const B256*>(a)) != 0 ? 1 : 0;
    case JV_PR_BI512_MUL: static_cast<B512*>(out)->multiply(*static_cast<const B256*>(a), *static_cast<const B256*>(b)); return 0;
    case JV_PR_BI512_SQR: static_cast<B512*>(out)->square(*static_cast<const B256*>(a)); return 0;
    case JV_PR_FP256_ADD: static_cast<F256*>(out)->add(*static_cast<const F256*>(a), *static_cast<const F256*>(b), r); return 0;
    case JV_PR_FP256_SUB: static_cast<F256*>(out)->subtract(*static_cast<const F256*>(a), *static_cast<const F256*>(b), r); return 0;
    case JV_PR_FP256_DBL: static_cast<F256*>(out)->multiply2(*static_cast<const F256*>(a), r); return 0;
    case JV_PR_FP256_NEG: static_cast<F256*>(out)->negate(*static_cast<const F256*>(a), r); return 0;
    case JV_PR_FP256_REDC: {
        B512 tmp; memcpy(&tmp, a, 64);
        static_cast<F256*>(out)->montgomery_reduce(tmp, r, Fr::inv_value.words[0]); return 0;
    }
    case JV_PR_FP256_MUL: static_cast<F256*>(out)->multiply(*static_cast<const F256*>(a), *static_cast<const F256*>(b), r, Fr::inv_value.words[0]); return 0;
    case JV_PR_FP256_SQR: static_cast<F256*>(out)->square(*static_cast<const F256*>(a), r, Fr::inv_value.words[0]); return 0;
    }
    return -1;
}

/* -------------------------------------------- reference paths for models */


void jv_g1_mul_ref(void* out, const void* in, const uint8_t* k32) { G1 t; mul_ref_bits<G1, 256>(t, static_cast<const G1&>(A1(in)), k32); O1(out).copy(t); }
void jv_g2_mul_ref(void* out, const void* in, const uint8_t* k32) { G2 t; mul_ref_bits<G2, 256>(t, static_cast<const G2&>(A2(in)), k32); O2(out).copy(t); }

void jv_g1_mul_ref_wide(void* out, const void* in, const uint8_t* k, int nbytes) {
    G1 t; uint8_t kk[64]; memset(kk, 0, 64); memcpy(kk, k, nbytes > 64 ? 64 : nbytes);
    mul_ref_bits<G1, 512>(t, A1(in), kk); O1(out).copy(t);
}
void jv_g2_mul_ref_wide(void* out, const void* in, const uint8_t* k, int nbytes) {
    G2 t; uint8_t kk[64]; memset(kk, 0, 64); memcpy(kk, k, nbytes > 64 ? 64 : nbytes);
    mul_ref_bits<G2, 512>(t, A2(in), kk); O2(out).copy(t);
}

void jv_gt_pow_ref(void* out, const void* in, const uint8_t* k32) {
    BigInt<256> k; load256(k, k32);
    Fq12 t; ep::core::exponentiate(t, AT(in), k); OT(out).copy(t);
}
void jv_gt_pow_nodiv(void* out, const void* in, const uint8_t* k32) {
    BigInt<256> k; load256(k, k32);
    Fq12 t; t.exponentiate_gt_nodiv(AT(in), k); OT(out).copy(t);
}
void jv_gt_mul(void* out, const void* a, const void* b) { Fq12 t; t.multiply(AT(a), AT(b)); OT(out).copy(t); }
void jv_gt_sqr_generic(void* out, const void* a) { Fq12 t; t.square(AT(a)); OT(out).copy(t); }
void jv_gt_inv_generic(void* out, const void* a) { Fq12 t; t.inverse(AT(a)); OT(out).copy(t); }

static void canon_fq(uint8_t* out, const Fq& v) { memcpy(out, v.val.bytes, 48); }

void jv_g1a_canon(uint8_t* out, const void* in) {
    const G1Affine& a = AA1(in);
    memset(out, 0, 97);
    if (a.infinity) { out[0] = 1; return; }
    canon_fq(out + 1, a.x); canon_fq(out + 49, a.y);
}
void jv_g2a_canon(uint8_t* out, const void* in) {
    const G2Affine& a = AA2(in);
    memset(out, 0, 193);
    if (a.infinity) { out[0] = 1; return; }
    canon_fq(out + 1, a.x.c0); canon_fq(out + 49, a.x.c1); canon_fq(out + 97, a.y.c0); canon_fq(out + 145, a.y.c1);
}
void jv_g1_canon(uint8_t* out, const void* in) { G1Affine a; G1 p; p.copy(A1(in)); a.from_projective(p); jv_g1a_canon(out, &a); }
void jv_g2_canon(uint8_t* out, const void* in) { G2Affine a; G2 p; p.copy(A2(in)); a.from_projective(p); jv_g2a_canon(out, &a); }

int jv_g1a_status(const void* in) { return affine_status<G1Affine, G1>(AA1(in)); }
int jv_g2a_status(const void* in) { return affine_status<G2Affine, G2>(AA2(in)); }

static void fq_from_le(Fq& out, const uint8_t* le48) {
    BigInt<384> v; memcpy(v.bytes, le48, 48);
    out.set(v);
}
static void fq_to_be(uint8_t* be48, const Fq& in) {
    BigInt<384> v; in.get(v);
    for (int i = 0; i < 48; i++) be48[i] = v.bytes[47 - i];
}
static void fq_from_be(Fq& out, const uint8_t* be48) {
    BigInt<384> v;
    for (int i = 0; i < 48; i++) v.bytes[i] = be48[47 - i];
    out.set(v);
}

/* Legendre symbol of a base-field element given as a canonical little-endian integer (field arithmetic is the models' trusted base) */
int jv_fq_legendre(const uint8_t* le48) { Fq v; fq_from_le(v, le48); return v.legendre(); }
int jv_g1a_from_x(void* outA, const uint8_t* x, int greater) {
    Fq fx; fq_from_le(fx, x);
    G1Affine t;
    if (!t.get_point_from_x(fx, greater != 0, true)) return 0;
    OA1(outA).copy(t); return 1;
}
int jv_g2a_from_x(void* outA, const uint8_t* x, int greater) {
    Fq2 fx; fq_from_le(fx.c0, x); fq_from_le(fx.c1, x + 48);
    G2Affine t;
    if (!t.get_point_from_x(fx, greater != 0, true)) return 0;
    OA2(outA).copy(t); return 1;
}
void jv_g1a_xy(uint8_t* out, const void* inA) { const G1Affine& a = AA1(inA); fq_to_be(out, a.x); fq_to_be(out + 48, a.y); }
void jv_g2a_xy(uint8_t* out, const void* inA) {
    const G2Affine& a = AA2(inA);
    fq_to_be(out, a.x.c1); fq_to_be(out + 48, a.x.c0); fq_to_be(out + 96, a.y.c1); fq_to_be(out + 144, a.y.c0);
}
void jv_g1a_set_xy(void* outA, const uint8_t* be, int infinity) {
    G1Affine& a = OA1(outA);
    memset(&a, 0, sizeof(a));
    if (infinity == 1) { a.copy(G1Affine::zero); return; }
    fq_from_be(a.x, be); fq_from_be(a.y, be + 48); a.infinity = infinity == 2;   /* 2: the caller set the flag on an object that still holds coordinates */
}
void jv_g2a_set_xy(void* outA, const uint8_t* be, int infinity) {
    G2Affine& a = OA2(outA);
    memset(&a, 0, sizeof(a));
    if (infinity == 1) { a.copy(G2Affine::zero); return; }
    fq_from_be(a.x.c1, be); fq_from_be(a.x.c0, be + 48); fq_from_be(a.y.c1, be + 96); fq_from_be(a.y.c0, be + 144); a.infinity = infinity == 2;
}
void jv_g1_clear_cofactor_ref(void* out, const void* inA) {
    G1 t; G1Affine b; b.copy(AA1(inA));
    t.multiply_doubleadd_restrict(b, G1Affine::cofactor); O1(out).copy(t);
}
void jv_g2_clear_cofactor_ref(void* out, const void* inA) {
    G2 t; G2Affine b; b.copy(AA2(inA));
    t.multiply_doubleadd_restrict(b, G2Affine::cofactor); O2(out).copy(t);
}
void jv_gt_pow_nodiv_width(void* out, const void* in, const uint8_t* k40, int width) {
    Fq12 t;
    switch (width) { case 64: pow_nodiv_w<64>(t, AT(in), k40); break; case 128: pow_nodiv_w<128>(t, AT(in), k40); break; case 192: pow_nodiv_w<192>(t, AT(in), k40); break;
                     case 320: pow_nodiv_w<320>(t, AT(in), k40); break; default: pow_nodiv_w<256>(t, AT(in), k40); break; }
    OT(out).copy(t);
}
/* caller-built w-NAF tables (grp 1/2, window 3..5) */
size_t jv_wnaf_table_bytes(int grp, int w) {
    if (grp == 1) return w == 3 ? sizeof(bls::WnafTable<G1, 3>) : w == 5 ? sizeof(bls::WnafTable<G1, 5>) : sizeof(bls::WnafTable<G1, 4>);
    return w == 3 ? sizeof(bls::WnafTable<G2, 3>) : w == 5 ? sizeof(bls::WnafTable<G2, 5>) : sizeof(bls::WnafTable<G2, 4>);
}
void jv_wnaf_table_build(int grp, int w, void* tbl, const void* baseA) {
    if (grp == 1) { if (w == 3) wnaf_tbl_build<G1, G1Affine, 3>(tbl, baseA); else if (w == 5) wnaf_tbl_build<G1, G1Affine, 5>(tbl, baseA); else wnaf_tbl_build<G1, G1Affine, 4>(tbl, baseA); }
    else { if (w == 3) wnaf_tbl_build<G2, G2Affine, 3>(tbl, baseA); else if (w == 5) wnaf_tbl_build<G2, G2Affine, 5>(tbl, baseA); else wnaf_tbl_build<G2, G2Affine, 4>(tbl, baseA); }
}
void jv_wnaf_table_mul(int grp, int w, void* out, void* tbl, const uint8_t* k32, int recoded) {
    if (grp == 1) { if (w == 3) wnaf_tbl_mul<G1, G1Affine, 3>(out, tbl, k32, recoded); else if (w == 5) wnaf_tbl_mul<G1, G1Affine, 5>(out, tbl, k32, recoded); else wnaf_tbl_mul<G1, G1Affine, 4>(out, tbl, k32, recoded); }
    else { if (w == 3) wnaf_tbl_mul<G2, G2Affine, 3>(out, tbl, k32, recoded); else if (w == 5) wnaf_tbl_mul<G2, G2Affine, 5>(out, tbl, k32, recoded); else wnaf_tbl_mul<G2, G2Affine, 4>(out, tbl, k32, recoded); }
}
/* decomposition into an object that was used before (for an earlier exponent): what a caller that keeps one PowersOfX around has */
void jv_decompose_x_reuse(uint64_t* out4, const uint8_t* kprev32, const uint8_t* k32) {
    BigInt<256> kp, k; load256(kp, kprev32); load256(k, k32);
    bls::PowersOfX px; px.decompose(kp); px.decompose(k);
    for (int i = 0; i < 4; i++) out4[i] = px.c[i].std_dwords[0];
}
void jv_decompose_x(uint64_t* out4, const uint8_t* k32) {
    BigInt<256> k; load256(k, k32);
    bls::PowersOfX px; px.decompose(k);
    for (int i = 0; i < 4; i++) out4[i] = px.c[i].std_dwords[0];
}
void jv_g1_scale_z(void* out, const void* in, const uint8_t* lam) {
    G1 p; p.copy(A1(in)); Fq l, l2, l3; fq_from_le(l, lam);
    if (p.is_zero() || l.is_zero()) { O1(out).copy(p); return; }
    l2.square(l); l3.multiply(l2, l);
    p.x.multiply(p.x, l2); p.y.multiply(p.y, l3); p.z.multiply(p.z, l);
    O1(out).copy(p);
}
void jv_g2_scale_z(void* out, const void* in, const uint8_t* lam) {
    G2 p; p.copy(A2(in)); Fq2 l, l2, l3; fq_from_le(l.c0, lam); l.c1.copy(Fq::zero);
    if (p.is_zero() || l.is_zero()) { O2(out).copy(p); return; }
    l2.square(l); l3.multiply(l2, l);
    p.x.multiply(p.x, l2); p.y.multiply(p.y, l3); p.z.multiply(p.z, l);
    O2(out).copy(p);
}

/* ---------------------------------------------------- object field access */

void* jv_field(int ok, void* obj, int field, int idx, int* ek) {
    switch (ok) {
    case JV_OK_WK_PARAMS: {
        wk::Params* p = static_cast<wk::Params*>(obj);
        switch (field) {
        case JV_F_P_G: *ek = JV_EK_G2; return &p->g;
        case JV_F_P_G1: *ek = JV_EK_G2; return &p->g1;
        case JV_F_P_G2: *ek = JV_EK_G1; return &p->g2;
        case JV_F_P_G3: *ek = JV_EK_G1; return &p->g3;
        case JV_F_P_PAIRING: *ek = JV_EK_GT; return &p->pairing;
        case JV_F_P_HSIG: *ek = JV_EK_G1; return &p->hsig;
        case JV_F_P_H: *ek = JV_EK_G1; return &p->h[idx];
        }
        break;
    }
    case JV_OK_WK_MSK: *ek = JV_EK_G1; return &static_cast<wk::MasterKey*>(obj)->g2alpha;
    case JV_OK_WK_SK: {
        wk::SecretKey* s = static_cast<wk::SecretKey*>(obj);
        switch (field) {
        case JV_F_SK_A0: *ek = JV_EK_G1; return &s->a0;
        case JV_F_SK_A1: *ek = JV_EK_G2; return &s->a1;
        case JV_F_SK_BSIG: *ek = JV_EK_G1; return &s->bsig;
        case JV_F_SK_B: *ek = JV_EK_G1; return &s->b[idx].hexp;
        }
        break;
    }
    case JV_OK_WK_CT: {
        wk::Ciphertext* c = static_cast<wk::Ciphertext*>(obj);
        switch (field) {
        case JV_F_CT_A: *ek = JV_EK_GT; return &c->a;
        case JV_F_CT_B: *ek = JV_EK_G2; return &c->b;
        case JV_F_CT_C: *ek = JV_EK_G1; return &c->c;
        }
        break;
    }
    case JV_OK_WK_SIG: {
        wk::Signature* s = static_cast<wk::Signature*>(obj);
        if (field == JV_F_SIG_A0) { *ek = JV_EK_G1; return &s->a0; }
        *ek = JV_EK_G2; return &s->a1;
    }
    case JV_OK_WK_PRE: *ek = JV_EK_G1; return &static_cast<wk::Precomputed*>(obj)->prodexp;
    case JV_OK_LQ_PARAMS: {
        lq::Params* p = static_cast<lq::Params*>(obj);
        *ek = JV_EK_G2; return field == JV_F_LQP_P ? &p->p : &p->sp;
    }
    case JV_OK_LQ_ID: *ek = JV_EK_G1A; return &static_cast<lq::ID*>(obj)->q;
    case JV_OK_LQ_MSK: *ek = JV_EK_FR; return &static_cast<lq::MasterKey*>(obj)->s;
    case JV_OK_LQ_SK: *ek = JV_EK_G1A; return &static_cast<lq::SecretKey*>(obj)->sq;
    case JV_OK_LQ_CT: *ek = JV_EK_G2A; return &static_cast<lq::Ciphertext*>(obj)->rp;
    }
    *ek = 0;
    return nullptr;
}

int jv_wk_params_l(const void* p) { return static_cast<const wk::Params*>(p)->l; }
int jv_wk_params_signatures(const void* p) { return static_cast<const wk::Params*>(p)->signatures ? 1 : 0; }
void jv_wk_params_init(void* p, void* harray, int l) {
    wk::Params* pp = static_cast<wk::Params*>(p);
    memset(pp, 0, sizeof(*pp));
    pp->h = static_cast<G1*>(harray); pp->l = l;
}
int jv_wk_sk_l(const void* sk) { return static_cast<const wk::SecretKey*>(sk)->l; }
int jv_wk_sk_signatures(const void* sk) { return static_cast<const wk::SecretKey*>(sk)->signatures ? 1 : 0; }
uint32_t jv_wk_sk_bidx(const void* sk, int i) { return static_cast<const wk::SecretKey*>(sk)->b[i].idx; }
void jv_wk_sk_init(void* sk, void* barray) {
    wk::SecretKey* s = static_cast<wk::SecretKey*>(sk);
    memset(s, 0, sizeof(*s));
    s->b = static_cast<wk::FreeSlot*>(barray);
}
void* jv_wk_sk_barray(const void* sk) { return static_cast<const wk::SecretKey*>(sk)->b; }
/* what the Go wrapper does after set_length: attach a freshly allocated array, touch nothing else */
void jv_wk_sk_set_barray(void* sk, void* barray) { static_cast<wk::SecretKey*>(sk)->b = static_cast<wk::FreeSlot*>(barray); }
void jv_wk_params_set_harray(void* p, void* harray) { static_cast<wk::Params*>(p)->h = static_cast<G1*>(harray); }
/* a caller re-uses a SecretKey object for a new result: the struct still holds the previous key (elements, l, flags); the array pointer is the caller's */
void jv_wk_sk_stale_from(void* dst, const void* src, int l) {
    wk::SecretKey* d = static_cast<wk::SecretKey*>(dst); const wk::SecretKey* s = static_cast<const wk::SecretKey*>(src);
    wk::FreeSlot* keep = d->b; memcpy(static_cast<void*>(d), static_cast<const void*>(s), sizeof(*d)); d->b = keep; d->l = l;
}
void jv_wk_sk_set_l(void* sk, int l) { static_cast<wk::SecretKey*>(sk)->l = l; }
void jv_wk_sk_set_bidx(void* sk, int i, uint32_t idx) { static_cast<wk::SecretKey*>(sk)->b[i].idx = idx; }

/* Pair records are laid out the way the caller of that view declares them: a C (or Go) caller allocates arrays of the C mirror
   structs of bls12_381.h, a C++ caller arrays of bls::AffinePair / bls::PreparedPair. */
size_t jv_pair_size(int view, int prepared) {
    if (view == 0) return prepared ? sizeof(embedded_pairing_bls12_381_prepared_pair_t) : sizeof(embedded_pairing_bls12_381_affine_pair_t);
    return prepared ? sizeof(bls::PreparedPair) : sizeof(bls::AffinePair);
}
/* What declaring the array does in each language: a C++ caller's records are default-constructed objects (a no-op today; it runs
   default member initialisers if the type ever gets any), a C caller's records are raw memory with whatever it held before. */
size_t jv_g2p_size(int view) { return view == 0 ? sizeof(embedded_pairing_bls12_381_g2prepared_t) : sizeof(G2Prepared); }
void jv_pair_init(int view, void* arr, size_t n, int prepared) {
    if (view == 0) return;
    if (prepared) { bls::PreparedPair* a = static_cast<bls::PreparedPair*>(arr); for (size_t i = 0; i < n; i++) new (&a[i]) bls::PreparedPair; }
    else { bls::AffinePair* a = static_cast<bls::AffinePair*>(arr); for (size_t i = 0; i < n; i++) new (&a[i]) bls::AffinePair; }
}
void jv_apair_set(int view, void* arr, size_t i, const void* g1a, const void* g2a) {
    if (view == 0) { embedded_pairing_bls12_381_affine_pair_t* a = static_cast<embedded_pairing_bls12_381_affine_pair_t*>(arr); a[i].g1 = (embedded_pairing_bls12_381_g1affine_t*) g1a; a[i].g2 = (embedded_pairing_bls12_381_g2affine_t*) g2a; return; }
    bls::AffinePair* a = static_cast<bls::AffinePair*>(arr);
    a[i].g1 = static_cast<const G1Affine*>(g1a); a[i].g2 = static_cast<const G2Affine*>(g2a);
}
/* what record i points at now (the two input members of a pair record; the routine's own running state is not the caller's business) */
void jv_pair_get(int view, const void* arr, size_t i, int prepared, const void** g1a, const void** g2) {
    if (view == 0) { if (prepared) { const embedded_pairing_bls12_381_prepared_pair_t* a = static_cast<const embedded_pairing_bls12_381_prepared_pair_t*>(arr); *g1a = a[i].g1; *g2 = a[i].g2; }
                     else { const embedded_pairing_bls12_381_affine_pair_t* a = static_cast<const embedded_pairing_bls12_381_affine_pair_t*>(arr); *g1a = a[i].g1; *g2 = a[i].g2; } return; }
    if (prepared) { const bls::PreparedPair* a = static_cast<const bls::PreparedPair*>(arr); *g1a = a[i].g1; *g2 = a[i].g2; }
    else { const bls::AffinePair* a = static_cast<const bls::AffinePair*>(arr); *g1a = a[i].g1; *g2 = a[i].g2; }
}
void jv_ppair_set(int view, void* arr, size_t i, const void* g1a, const void* g2p) {
    if (view == 0) { embedded_pairing_bls12_381_prepared_pair_t* a = static_cast<embedded_pairing_bls12_381_prepared_pair_t*>(arr); a[i].g1 = (embedded_pairing_bls12_381_g1affine_t*) g1a; a[i].g2 = (embedded_pairing_bls12_381_g2prepared_t*) g2p; return; }
    bls::PreparedPair* a = static_cast<bls::PreparedPair*>(arr);
    a[i].g1 = static_cast<const G1Affine*>(g1a); a[i].g2 = static_cast<const G2Prepared*>(g2p);
}

/* source-coverage builds (bin/coverage.sh): the profile runtime inside this shared object is hidden, so the adapter exports the flush */
#ifdef JV_COV
int __llvm_profile_write_file(void);
int jv_cov_flush(void) { return __llvm_profile_write_file(); }
#else
int jv_cov_flush(void) { return 0; }
#endif

} /* extern "C" */

#include "adapter_bls.inc"
#include "adapter_wk.inc"
#include "adapter_lq.inc"
#include "adapter_abi.inc"
