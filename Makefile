# Builds the simulator (two flavours). The replicas of the library are built
# from /repo's working tree by bin/build_replicas.py at check time.
CXX = clang++
CXXFLAGS = -std=c++17 -O2 -g1 -gdwarf-4 -Wall -Wextra -Wno-unused-parameter -Wno-missing-field-initializers -fno-omit-frame-pointer
LDFLAGS = -rdynamic -ldl -lpthread
SRC = $(wildcard sim/*.cpp)
HDR = $(wildcard sim/*.hpp) $(wildcard sim/*.inc) adapter/jv_abi.h
OBJ_PLAIN = $(patsubst sim/%.cpp,build/obj/plain/%.o,$(SRC))
OBJ_SAN = $(patsubst sim/%.cpp,build/obj/san/%.o,$(SRC))
SAN = -fsanitize=address,undefined -fno-sanitize-recover=undefined -DJV_SAN

all: build/jsim build/jsim_san

build/obj/plain/%.o: sim/%.cpp $(HDR)
	@mkdir -p $(dir $@)
	$(CXX) $(CXXFLAGS) -c $< -o $@
build/obj/san/%.o: sim/%.cpp $(HDR)
	@mkdir -p $(dir $@)
	$(CXX) $(CXXFLAGS) $(SAN) -c $< -o $@
build/jsim: $(OBJ_PLAIN)
	$(CXX) $(CXXFLAGS) $^ -o $@ $(LDFLAGS)
build/jsim_san: $(OBJ_SAN)
	$(CXX) $(CXXFLAGS) $(SAN) $^ -o $@ $(LDFLAGS)
clean:
	rm -rf build/obj build/jsim build/jsim_san
.PHONY: all clean
