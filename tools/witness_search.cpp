// witness_search.cpp - offline search (not a check) for subgroup elements [k]G whose affine coordinate shares its top 32-bit word with
// the base-field modulus q (0x1a0111ea): the boundary of every word-wise "coordinate < q" comparison in decoding code. Probability
// about 2^-31 per coordinate, so the simulator cannot find them on the fly; it carries the k found here as constants and re-verifies
// them through the library at run time (probe element_with_*_top_word_equal_to_q_top_word).
// build: clang++ -std=c++17 -Ofast -I/repo/include tools/witness_search.cpp /repo/src/bls12_381/*.cpp /repo/src/core/arch/x86_64/*.cpp /repo/src/core/arch/x86_64/*.s -o build/witness_search
// usage: witness_search <g1|g2> <start_k> <count>      prints "HIT <group> <coordinate> k=<k>" lines
#include <stdio.h>
#include <stdlib.h>
#include <string.h>
#include <vector>
#include "bls12_381/curve.hpp"
#include "bls12_381/fq.hpp"
#include "bls12_381/fq2.hpp"
using namespace embedded_pairing::bls12_381;
using embedded_pairing::core::BigInt;

static inline uint32_t top32(const Fq& v) { BigInt<384> c; v.get(c); return c.std_words[11]; }

template <typename Proj, typename Aff, typename F>
static void run(const char* gname, const Aff& gen, uint64_t start, uint64_t count, int ncoord) {
    Proj p; BigInt<256> k; memset(&k, 0, sizeof(k)); k.std_words[0] = (uint32_t) start; k.std_words[1] = (uint32_t) (start >> 32);
    Proj g; g.from_affine(gen); p.multiply(g, k);
    const size_t B = 2048; std::vector<Proj> pts(B); std::vector<F> pre(B);
    for (uint64_t done = 0; done < count; done += B) {
        for (size_t i = 0; i < B; i++) { pts[i].copy(p); p.add(p, gen); }
        // Montgomery's trick on the z coordinates
        F acc; acc.copy(F::one);
        for (size_t i = 0; i < B; i++) { pre[i].copy(acc); if (!pts[i].is_zero()) acc.multiply(acc, pts[i].z); }
        F inv; inv.inverse(acc);
        for (size_t i = B; i-- > 0;) {
            if (pts[i].is_zero()) continue;
            F zi; zi.multiply(inv, pre[i]); inv.multiply(inv, pts[i].z);
            F z2; z2.square(zi); F x; x.multiply(pts[i].x, z2); z2.multiply(z2, zi); F y; y.multiply(pts[i].y, z2);
            uint32_t t[4]; int n = 0;
            if constexpr (sizeof(F) == sizeof(Fq)) { t[n++] = top32(*reinterpret_cast<Fq*>(&x)); t[n++] = top32(*reinterpret_cast<Fq*>(&y)); }
            else { Fq2* xx = reinterpret_cast<Fq2*>(&x); Fq2* yy = reinterpret_cast<Fq2*>(&y); t[n++] = top32(xx->c0); t[n++] = top32(xx->c1); t[n++] = top32(yy->c0); t[n++] = top32(yy->c1); }
            for (int c = 0; c < n; c++) if (t[c] == 0x1a0111eau) { printf("HIT %s coord%d k=%llu\n", gname, c, (unsigned long long) (start + done + i)); fflush(stdout); }
        }
    }
    (void) ncoord;
}

int main(int argc, char** argv) {
    if (argc < 4) return 2;
    uint64_t start = strtoull(argv[2], nullptr, 10), count = strtoull(argv[3], nullptr, 10);
    if (!strcmp(argv[1], "g1")) run<G1, G1Affine, Fq>("g1", G1Affine::generator, start, count, 2);
    else run<G2, G2Affine, Fq2>("g2", G2Affine::generator, start, count, 4);
    printf("DONE %s %llu %llu\n", argv[1], (unsigned long long) start, (unsigned long long) count);
    return 0;
}
