// run_search.cpp - offline search (GMP) for a hash-to-curve input whose try-and-increment walk passes a long run of x values
// that are not x coordinates of curve points: x0 with x^3+4 a non-residue mod q for x = x0 .. x0+N-1. A random x0 has that with
// probability 2^-N; the witness found here is written into the scenario (and re-verified there through the library, not trusted).
// usage: run_search <N> <threads> <seed>
#include <gmp.h>
#include <stdio.h>
#include <stdlib.h>
#include <thread>
#include <atomic>
#include <vector>
#include <stdint.h>
static const char* QHEX = "1a0111ea397fe69a4b1ba7b6434bacd764774b84f38512bf6730d2a0f6b0f6241eabfffeb153ffffb9feffffffffaaab";
static std::atomic<bool> done(false);
static void worker(int N, uint64_t seed, int id) {
    mpz_t q, x, t; mpz_init_set_str(q, QHEX, 16); mpz_init(x); mpz_init(t);
    gmp_randstate_t rs; gmp_randinit_mt(rs); gmp_randseed_ui(rs, seed * 1000003u + (unsigned) id);
    mpz_urandomm(x, rs, q); mpz_fdiv_q_2exp(x, x, 2);   // < 2^380: the digest bytes are the value itself
    int run = 0, best = 0; uint64_t steps = 0;
    while (!done.load(std::memory_order_relaxed)) {
        mpz_mul(t, x, x); mpz_mod(t, t, q); mpz_mul(t, t, x); mpz_add_ui(t, t, 4); mpz_mod(t, t, q);
        int j = mpz_jacobi(t, q);
        if (j == -1) { run++; if (run > best) { best = run; if (best >= N - 4) { mpz_sub_ui(t, x, (unsigned) run - 1); gmp_printf("thread %d: run %d starting at x0 = %Zx (steps %llu)\n", id, run, t, (unsigned long long) steps); fflush(stdout); } if (run >= N) { done = true; break; } } }
        else run = 0;
        mpz_add_ui(x, x, 1); steps++;
    }
}
int main(int argc, char** argv) {
    int N = argc > 1 ? atoi(argv[1]) : 32, T = argc > 2 ? atoi(argv[2]) : 8; uint64_t seed = argc > 3 ? strtoull(argv[3], 0, 10) : 1;
    std::vector<std::thread> th; for (int i = 0; i < T; i++) th.emplace_back(worker, N, seed, i);
    for (auto& t : th) t.join();
    return 0;
}
