// sc_lq.cpp - scenario "lq": LQ-IBE between a PKG, a sender and a receiver; caller's hash and
// random callbacks are simulator-owned; master scalar, identities, keys and ciphertexts cross
// the simulated store as bytes (C16; marshalling of LQ-IBE objects for C15/C17).
#include <sys/mman.h>
#include "core.hpp"
#include "wkd_model.hpp"
#include "wkd_wire.hpp"

namespace jv {

struct LqRun {
    RunEnv& env; W w; Rep& R; int view; const Plan& plan;
    Buf params, msk; Bn s_raw; G2v P, sP;
    struct Id { Buf id; std::vector<uint8_t> hash; G1v Q; };
    struct Sk { Buf sk; size_t id; Bn s; };
    struct Ct { Buf ct; size_t id; Bn r; Bn s; std::vector<uint8_t> hashed; std::vector<uint8_t> sym; size_t symlen; };
    std::vector<Id> ids; std::vector<Sk> sks; std::vector<Ct> cts;
    LqRun(RunEnv& e, const Plan& p) : env(e), w(e), R(*e.rep), view(e.view), plan(p) {}

    void begin(uint64_t ss, const std::vector<std::string>& faults = {}) {
        env.stream.reseed(ss);
        for (auto& f : faults) {
            auto push8 = [&](const Bn& v) { std::vector<uint8_t> b(8); v.to_le(b.data(), 8); env.stream.push(8, b); };
            auto tuple = [&](const Bn& y) { Bn q, rem, cur = y; for (int i = 0; i < 4; i++) { Bn::divmod(cur, K().absx, q, rem); push8(rem); cur = q; } };
            if (f == "storm8") for (int i = 0; i < 5; i++) push8(i % 2 ? K().absx : Bn::sub(Bn(1).shl(64), Bn(1)));
            else if (f == "tupler") tuple(K().r); else if (f == "tuplerm1") tuple(Bn::sub(K().r, Bn(1))); else if (f == "tuple1") tuple(Bn(1)); else if (f == "tuple0") tuple(Bn(0)); else if (f == "digitxm1") push8(Bn::sub(K().absx, Bn(1)));
            env.count("fault:stream_" + f);
        }
        env.stream.begin_call(); env.lib_calls++;
    }
    Bn drawn(const char* what) { SampleCursor c(env.stream.reqs); Bn y; uint64_t d[4]; if (!model_powers_random(c, y, d)) env.fail("C10", "M-sample:request-sequence", std::string(what) + ": " + c.err); return y; }
    G1v q_of(Buf& id) { int ek; void* p = R.jv_field(JV_OK_LQ_ID, id, 0, 0, &ek); G1v v; R.jv_g1_from_affine(1, v.b, p); return v; }
    G1v sq_of(Buf& sk) { int ek; void* p = R.jv_field(JV_OK_LQ_SK, sk, 0, 0, &ek); G1v v; R.jv_g1_from_affine(1, v.b, p); return v; }
    G2v rp_of(Buf& ct) { int ek; void* p = R.jv_field(JV_OK_LQ_CT, ct, 0, 0, &ek); G2v v; R.jv_g2_from_affine(1, v.b, p); return v; }
    Bn msk_scalar() { int ek; void* p = R.jv_field(JV_OK_LQ_MSK, msk, 0, 0, &ek); return Bn::from_le((uint8_t*) p, 32); }

    void setup() {
        params.alloc(R.sz(JV_SZ_LQ_PARAMS)); msk.alloc(R.sz(JV_SZ_LQ_MSK));
        begin((uint64_t) plan.c("setup_seed", 1)); env.stream.limit += 64;
        // one setup in eight: the random source's first candidate for the generator P is a point of the cofactor torsion (its cofactor multiple is the
        // identity: the sampler must draw again - a legal, astronomically rare output of an honest source)
        if (plan.c("setup_torsion", 0)) { std::vector<uint8_t> raw; if (torsion_candidate_raw(R, 2, (uint64_t) plan.c("setup_seed", 1), raw)) { env.stream.push(48, std::vector<uint8_t>(raw.begin(), raw.begin() + 48)); env.stream.push(48, std::vector<uint8_t>(raw.begin() + 48, raw.end())); env.stream.push(1, std::vector<uint8_t>(1, (uint8_t) (plan.c("setup_seed", 1) & 1))); env.count("fault:setup_generator_candidate_in_cofactor_torsion"); } }
        // one setup in eight: the source's first whole candidate for the master scalar is out of range (digits each valid, the value >= r) and is
        // thrown away - the second candidate is the master scalar, and sP must be [that]P
        if (plan.c("setup_reject", 0)) { std::vector<std::string> f = {plan.c("setup_reject", 0) == 1 ? "tupler" : "storm8"}; for (auto& t : f) { auto push8 = [&](const Bn& v) { std::vector<uint8_t> b(8); v.to_le(b.data(), 8); env.stream.push(8, b); };
            if (t == "tupler") { Bn q2, rem, cur = Bn::add(K().r, Bn((uint64_t) (plan.c("setup_seed", 1) % 1000))); for (int i = 0; i < 4; i++) { Bn::divmod(cur, K().absx, q2, rem); push8(rem); cur = q2; } } else for (int i = 0; i < 5; i++) push8(i % 2 ? K().absx : Bn::sub(Bn(1).shl(64), Bn(1))); }
            env.count("fault:setup_first_master_scalar_candidate_rejected"); env.stream.limit += 16; }
        R.jv_lq_setup(view, params, msk, jv_rand_cb);
        Bn s = drawn("setup"); s_raw = msk_scalar();
        env.check(s_raw == s, "C16", "setup:master-scalar", "master scalar is not the scalar drawn from the stream");
        P = w.field<G2v>(JV_OK_LQ_PARAMS, params, JV_F_LQP_P); sP = w.field<G2v>(JV_OK_LQ_PARAMS, params, JV_F_LQP_SP);
        env.check(w.c2(sP) == w.c2(w.g2mul(P, s)), "C16", "setup:sP", "params.sp != [s]p");
        env.check(w.c2(P)[0] == 0, "C16", "setup:p-nonzero", "params.p is the identity");
        env.logf("LQSETUP s=%s", s.hexstr().c_str());
    }
    Id* pick_id(int64_t h) { if (ids.empty()) return nullptr; return &ids[(size_t) h % ids.size()]; }

    void op_id(const Op& op) {
        Id d; d.hash = unhex(op.s.empty() ? "" : op.s[0]); d.hash.resize(48); d.id.alloc(R.sz(JV_SZ_LQ_ID));
        // one identity in three is converted in place: the caller keeps the 48 digest bytes inside the object that receives the identity (at a
        // seed-chosen offset) - the two pointer types differ and neither is restrict-qualified
        if ((d.hash[2] % 3) == 0 && d.id.n >= 48) { size_t off = ((size_t) d.hash[3] % (d.id.n - 48 + 1)) & ~(size_t) 7; memcpy(d.id.p + off, d.hash.data(), 48); env.lib_calls++; R.jv_lq_compute_id_from_hash(view, d.id, d.id.p + off); env.count("probe:in_place_call_output_is_the_input_object"); }
        else { MBytes hm(d.hash.data(), d.hash.size(), (size_t) (1 + (env.lib_calls + (uint64_t) env.step) % 15)); env.lib_calls++; R.jv_lq_compute_id_from_hash(view, d.id, hm.p); } d.Q = q_of(d.id);
        // the identity is a function of the digest: the model recomputes it out of place through the reference view
        { Buf ref(R.sz(JV_SZ_LQ_ID)); MBytes hm2(d.hash.data(), d.hash.size(), 0); R.jv_lq_compute_id_from_hash(1, ref, hm2.p); env.lib_calls++; G1v q2 = q_of(ref); env.check(w.c1(d.Q) == w.c1(q2), "C16", "identity:function-of-digest", "compute_id_from_hash gave a different identity point when the digest bytes were kept inside the identity object"); }
        int ek; env.check((R.jv_g1a_status(R.jv_field(JV_OK_LQ_ID, d.id, 0, 0, &ek)) & 7) == 6, "C16", "identity:in-G1", "identity point is not a non-identity element of the order-r subgroup");
        env.logf("LQID %s", sha_hex(w.c1(d.Q).data(), 97, 8).c_str()); ids.push_back(std::move(d));
    }
    // master scalar delivered through the store (raw copy, so a damaged byte gives a scalar >= r)
    void op_mskhop(const Op& op) {
        bool comp = op.arg(0) != 0; env.lib_calls += 3;
        size_t n = R.jv_lq_get_marshalled_length(view, JV_OK_LQ_MSK, comp);
        env.check(n == 32, "C15", "length:matches-format", strf("LQ master key marshalled length %zu != 32", n));
        MBytes b(n, (size_t) (env.step % 3) * 5 % 16, 0xA5); R.jv_lq_marshal(view, JV_OK_LQ_MSK, b.p, msk, comp);   // byte buffers have no alignment guarantee
        std::vector<uint8_t> v(b.p, b.p + n); uint8_t want[32]; s_raw.to_le(want, 32);
        env.check(memcmp(v.data(), want, 32) == 0, "C15", "marshal:layout", "LQ master key bytes are not the scalar's little-endian bytes");
        for (auto& f : op.s) { if (apply_byte_fault(v, f)) env.count("fault:master_scalar_" + f.substr(0, f.find(':'))); }
        if (!op.s.empty() && op.s[0] == "ge_r") { Bn big = Bn::add(s_raw, K().r); if (big < K().two256) { big.to_le(v.data(), 32); env.count("fault:master_scalar_plus_r"); } }
        if (!op.s.empty() && op.s[0].compare(0, 4, "val:") == 0) { Bn nv = value_of_code(op.s[0].substr(4)); nv.to_le(v.data(), 32); env.count(op.s[0].compare(4, 4, "glv:") == 0 ? "fault:master_scalar_meets_exceptional_addition" : "fault:master_scalar_boundary_value"); }   // the PKG's key file holds a chosen scalar
        if (!op.s.empty() && op.s[0] == "max") { std::fill(v.begin(), v.end(), 0xFF); env.count("fault:master_scalar_all_ff"); }
        MBytes in(v.data(), v.size(), (size_t) (env.step % 4) * 3 + 1); Buf m2(R.sz(JV_SZ_LQ_MSK));
        int ok = R.jv_lq_unmarshal(view, JV_OK_LQ_MSK, m2, in.p, comp, op.arg(1) != 0);
        env.check(ok == 1, "C15", "roundtrip:accepted", "LQ master key unmarshal failed");
        msk = std::move(m2);
        // the master scalar is what was delivered (the model does not re-read it from the object): C16 speaks about "the master scalar
        // times the identity point" for unmarshalled scalars >= r too
        s_raw = Bn::from_le(v.data(), 32);
        env.soft(msk_scalar() == s_raw, "C15", "roundtrip:equal-object", "LQ master key after unmarshal differs from the delivered bytes");
        if (s_raw >= K().r) env.count("probe:master_scalar_ge_r");
        // a new master scalar means new public parameters for the second-PKG cases; keep params consistent for positive cases
        sP = w.g2mul(P, s_raw); w.setfield(JV_OK_LQ_PARAMS, params, JV_F_LQP_SP, 0, sP);
        env.logf("LQMSKHOP s=%s", s_raw.hexstr().c_str());
        env.add_case(strf("mskhop ge_r%d", s_raw >= K().r), !op.s.empty());
    }
    void op_keygen(const Op& op) {
        Id* d = pick_id(op.arg(0)); if (!d) return;
        Sk k; k.sk.alloc(R.sz(JV_SZ_LQ_SK)); k.id = (size_t) (d - &ids[0]); k.s = s_raw;
        env.lib_calls++; R.jv_lq_keygen(view, k.sk, msk, d->id);
        env.check(w.c1(sq_of(k.sk)) == w.c1(w.g1mul(d->Q, s_raw)), "C16", "keygen:sQ", strf("secret key != [s]Q for master scalar %s", s_raw.hexstr().c_str()));
        env.logf("LQKEYGEN id%zu", k.id); env.add_case(strf("lqkeygen ge_r%d", s_raw >= K().r), s_raw >= K().r);
        sks.push_back(std::move(k));
    }
    std::vector<uint8_t> model_hashed(const G1v& Q, const G2v& rP, const GTv& e) {
        std::vector<uint8_t> out = model_g1_bytes(w, Q, true), b = model_g2_bytes(w, rP, true), c = model_gt_bytes(e);
        out.insert(out.end(), b.begin(), b.end()); out.insert(out.end(), c.begin(), c.end()); return out;
    }
    void op_enc(const Op& op) {
        Id* d = pick_id(op.arg(1)); if (!d) return;
        static const size_t lens[] = {0, 1, 16, 32, 64, 777}; size_t symlen = lens[(size_t) op.arg(2) % 6];
        Ct c; c.ct.alloc(R.sz(JV_SZ_LQ_CT)); c.id = (size_t) (d - &ids[0]); c.symlen = symlen;
        Bytes sym(symlen + 8, 0xA5);            // 8 guard bytes in front of ASan's redzone: "nothing written beyond the requested length"
        env.hash.calls.clear(); begin((uint64_t) op.arg(0), op.s);
        // a callback that leaves by throwing (the random source fails on its k-th request, or the KDF refuses): the exception must reach the
        // caller through either interface; nothing is learnt from the outputs of a cancelled call
        for (auto& f : op.s) if (f.compare(0, 7, "cancel:") == 0) {
            bool viahash = f[7] == 'h'; env.hash.calls.clear(); begin((uint64_t) op.arg(0)); if (viahash) env.hash.cancel_next = true; else env.stream.cancel_at = atoi(f.c_str() + 8);
            bool arrived = false; Bytes sy(symlen + 8, 0xA5);
            try { R.jv_lq_encrypt(view, c.ct, sy.p, symlen, params, d->id, jv_hash_cb, jv_rand_cb); } catch (CallbackCancelled&) { arrived = true; }
            env.hash.cancel_next = false; env.stream.cancel_at = -1; env.count("fault:callback_leaves_by_throwing");
            env.logf("LQENC cancelled via %s arrived=%d", viahash ? "hash" : "random", arrived);
            env.check(arrived, "C16", "cancel:exception-reaches-caller", "a callback left by throwing and the exception did not reach the caller of encrypt");
            env.add_case(strf("lqenc cancel %c", f[7]), true); return;
        }
        bool nullout = symlen == 0 && (op.arg(0) & 1);   // "no key wanted": length 0 with no buffer at all (what std::vector<uint8_t>(0).data() gives); the hash still sees the same bytes
        if (nullout) env.count("fault:zero_length_key_with_null_buffer");
        R.jv_lq_encrypt(view, c.ct, nullout ? nullptr : sym.p, symlen, params, d->id, jv_hash_cb, jv_rand_cb);
        c.r = drawn("encrypt"); c.s = s_raw;
        for (size_t i = symlen; i < symlen + 8; i++) env.check(sym.p[i] == 0xA5, "C16", "outlen:forwarded-unchanged", "encrypt wrote beyond the requested symmetric key length");
        env.check(env.hash.calls.size() == 1, "C16", "hash:called-once", strf("encrypt called the hash function %zu times", env.hash.calls.size()));
        env.check(env.hash.calls[0].outlen == symlen, "C16", "outlen:forwarded-unchanged", strf("encrypt asked the hash function for %zu bytes, caller requested %zu", env.hash.calls[0].outlen, symlen));
        G2v rP = w.g2mul(P, c.r); GTv e = w.pair(d->Q, w.g2mul(sP, c.r));
        env.check(w.c2(rp_of(c.ct)) == w.c2(rP), "C16", "encrypt:rP", "ciphertext != [r]P for the r drawn");
        std::vector<uint8_t> want = model_hashed(d->Q, rP, e);
        env.check(env.hash.calls[0].in == want, "C16", "encrypt:hashed-bytes", strf("bytes hashed by encrypt (%zu) are not compressed(Q) || compressed(rP) || GT-bytes(e(Q,[r][s]P)) (%zu)", env.hash.calls[0].in.size(), want.size()));
        c.hashed = env.hash.calls[0].in; c.sym.assign(sym.p, sym.p + symlen);
        env.logf("LQENC id%zu len%zu r=%s", c.id, symlen, c.r.hexstr().c_str()); env.add_case(strf("lqenc len%zu f%zu", symlen, op.s.size()), !op.s.empty());
        cts.push_back(std::move(c));
    }
    // ENCHUGE sseed id : a key length that does not fit 32 bits. The output buffer is address space only (mmap, no reserve); the hash stub
    // records the request and writes 64 bytes. Encrypt and decrypt must both forward the length unchanged and hash the same bytes.
    void op_enchuge(const Op& op) {
        Id* d = pick_id(op.arg(1)); if (!d) return;
        size_t symlen = ((size_t) 1 << 32) + 32 + (size_t) (op.arg(0) & 0xFF);
        void* mem = mmap(nullptr, symlen + 4096, PROT_READ | PROT_WRITE, MAP_PRIVATE | MAP_ANONYMOUS | MAP_NORESERVE, -1, 0); if (mem == MAP_FAILED) { env.count("probe:huge_key_buffer_not_mapped"); return; }
        Buf ct(R.sz(JV_SZ_LQ_CT)), sk(R.sz(JV_SZ_LQ_SK)); env.hash.calls.clear(); env.hash.dry = true; begin((uint64_t) op.arg(0), op.s);
        R.jv_lq_encrypt(view, ct, mem, symlen, params, d->id, jv_hash_cb, jv_rand_cb); drawn("encrypt");
        bool ok1 = env.hash.calls.size() == 1 && env.hash.calls[0].outlen == symlen; std::vector<uint8_t> hashed = env.hash.calls.empty() ? std::vector<uint8_t>() : env.hash.calls[0].in; size_t asked1 = env.hash.calls.empty() ? 0 : env.hash.calls[0].outlen;
        env.hash.calls.clear(); env.lib_calls += 2; R.jv_lq_keygen(view, sk, msk, d->id); R.jv_lq_decrypt(view, mem, symlen, ct, sk, d->id, jv_hash_cb);
        bool ok2 = env.hash.calls.size() == 1 && env.hash.calls[0].outlen == symlen; bool same = !env.hash.calls.empty() && env.hash.calls[0].in == hashed; size_t asked2 = env.hash.calls.empty() ? 0 : env.hash.calls[0].outlen;
        env.hash.dry = false; munmap(mem, symlen + 4096);
        env.count("probe:key_length_beyond_32_bits"); env.logf("LQENCHUGE ok%d%d same%d", ok1, ok2, same);
        env.check(ok1, "C16", "outlen:forwarded-unchanged", strf("encrypt asked the hash function for %zu bytes, caller requested %zu", asked1, symlen));
        env.check(ok2, "C16", "outlen:forwarded-unchanged", strf("decrypt asked the hash function for %zu bytes, caller requested %zu", asked2, symlen));
        env.check(same, "C16", "decrypt:same-hashed-bytes", "decryption fed the hash function different bytes than encryption did (key length beyond 32 bits)");
        env.add_case("lqenc huge", true);
    }
    void op_dec(const Op& op) {
        if (cts.empty()) return; Ct& c = cts[(size_t) op.arg(0) % cts.size()]; int variant = (int) op.arg(1) % 6;
        if (Bn::mod(c.s, K().r) != Bn::mod(s_raw, K().r)) return;     // the PKG has changed its master key since: not the same system
        Id& d = ids[c.id]; Buf ct = c.ct; Buf sk(R.sz(JV_SZ_LQ_SK)); Buf* idp = &d.id; const char* what = "";
        // the receiver's key: derived now from the current master scalar for the ciphertext's identity
        env.lib_calls++; R.jv_lq_keygen(view, sk, msk, d.id);
        bool expect_same = true;
        if (variant == 1) { if (ids.size() < 2) return; Id& o = ids[(c.id + 1) % ids.size()]; if (w.c1(o.Q) == w.c1(d.Q)) return; R.jv_lq_keygen(view, sk, msk, o.id); expect_same = false; what = "secret key of another identity"; }
        else if (variant == 2) { Buf m2 = msk; int ek; uint8_t* p = (uint8_t*) R.jv_field(JV_OK_LQ_MSK, m2, 0, 0, &ek); Bn s2 = Bn::mod(Bn::add(s_raw, Bn(1)), K().two256); s2.to_le(p, 32); R.jv_lq_keygen(view, sk, m2, d.id); expect_same = false; what = "secret key under another master key"; }
        else if (variant == 3) { G2v rp = w.g2add(rp_of(ct), P); Buf a(R.sz(JV_SZ_G2A)); R.jv_g2affine_from_projective(1, a, rp.b); int ek; memcpy(R.jv_field(JV_OK_LQ_CT, ct, 0, 0, &ek), a.p, a.n); expect_same = false; what = "ciphertext replaced by another valid point"; }
        else if (variant == 4) {
            // ciphertext damaged in the store and read with non-validating unmarshal
            size_t n = R.jv_lq_get_marshalled_length(view, JV_OK_LQ_CT, op.arg(2) != 0); Bytes b(n, 0); R.jv_lq_marshal(view, JV_OK_LQ_CT, b.p, ct, op.arg(2) != 0);
            b.p[n - 1 - (size_t) op.arg(3) % (n / 2)] ^= (uint8_t) (1u << (op.arg(3) & 7));
            Buf c2(R.sz(JV_SZ_LQ_CT)); if (!R.jv_lq_unmarshal(view, JV_OK_LQ_CT, c2, b.p, op.arg(2) != 0, 0)) return;
            // a flipped bit that the non-validating reader ignores (flag bits of a later coordinate) leaves the ciphertext itself unmodified
            if (w.c2(rp_of(c2)) == w.c2(rp_of(ct))) { env.count("probe:damaged_bytes_decode_to_same_ciphertext"); return; }
            ct = c2; expect_same = false; what = "ciphertext damaged in the store, non-validating read"; env.count("fault:lq_ciphertext_flip_nonvalidating");
        }
        else if (variant == 5) {
            // intact marshalling hop of everything the receiver uses
            bool comp = op.arg(2) != 0;
            auto hop = [&](int ok, Buf& obj, int szk) { size_t n = R.jv_lq_get_marshalled_length(view, ok, comp); Bytes b(n, 0); R.jv_lq_marshal(view, ok, b.p, obj, comp); Buf o2(R.sz(szk)); int r = R.jv_lq_unmarshal(view, ok, o2, b.p, comp, 1); env.check(r == 1, "C15", "roundtrip:accepted", "validating unmarshal rejected the library's own LQ-IBE bytes"); obj = std::move(o2); };
            hop(JV_OK_LQ_CT, ct, JV_SZ_LQ_CT); hop(JV_OK_LQ_SK, sk, JV_SZ_LQ_SK); what = "after a marshalling hop"; env.count("fault:restart_from_durable_bytes");
        }
        Bytes sym(c.symlen + 8, 0xA5); env.hash.calls.clear(); env.lib_calls++;
        bool nullout = c.symlen == 0 && ((op.arg(3) >> 4) & 1); if (nullout) env.count("fault:zero_length_key_with_null_buffer");
        R.jv_lq_decrypt(view, nullout ? nullptr : sym.p, c.symlen, ct, sk, *idp, jv_hash_cb);
        env.check(env.hash.calls.size() == 1 && env.hash.calls[0].outlen == c.symlen, "C16", "outlen:forwarded-unchanged", "decrypt did not ask the hash function for exactly the requested length");
        for (size_t i = c.symlen; i < c.symlen + 8; i++) env.check(sym.p[i] == 0xA5, "C16", "outlen:forwarded-unchanged", "decrypt wrote beyond the requested length");
        bool same = env.hash.calls[0].in == c.hashed;
        env.logf("LQDEC v%d same=%d", variant, same);
        if (expect_same) {
            env.check(same, "C16", "decrypt:same-hashed-bytes", std::string("decryption fed the hash function different bytes than encryption did ") + what);
            env.check(std::vector<uint8_t>(sym.p, sym.p + c.symlen) == c.sym, "C16", "decrypt:same-symmetric-key", "decryption produced a different symmetric key");
        } else if (Bn::mod(c.r, K().r).is_zero() && (variant == 1 || variant == 2)) env.count("probe:encryption_randomness_zero");   // scripted r = 0: the ciphertext is the identity and every key pairs to 1 with it - legal output of a random source, excluded by the scheme's argument; exempt from the "other key" negative cases
        else if (Bn::mod(s_raw, K().r).is_zero() && (variant == 1 || variant == 4)) env.count("probe:master_scalar_zero");   // delivered master scalar = 0 mod r: every secret key is the identity and pairs to 1 with anything - a degenerate system, exempt like r = 0 above
        else env.check(!same, "C16", "decrypt:bound-to-identity-master-ciphertext", std::string("hashed bytes are unchanged although decryption used: ") + what);
        env.add_case(strf("lqdec v%d len%zu", variant, c.symlen), !expect_same);
    }
    // marshalling of LQ-IBE objects (C15): layout, lengths, round trip, element validation
    void op_hop(const Op& op) {
        int k = (int) op.arg(0) % 4; bool comp = op.arg(2) != 0, checked = op.arg(3) != 0;
        static const int oks[] = {JV_OK_LQ_PARAMS, JV_OK_LQ_ID, JV_OK_LQ_SK, JV_OK_LQ_CT}; static const int szs[] = {JV_SZ_LQ_PARAMS, JV_SZ_LQ_ID, JV_SZ_LQ_SK, JV_SZ_LQ_CT};
        static const char* names[] = {"lq-params", "lq-id", "lq-secretkey", "lq-ciphertext"};
        Buf* obj = nullptr; std::vector<std::pair<int, size_t>> el;   // (group, offset)
        std::vector<uint8_t> mb;
        if (k == 0) { obj = &params; mb = model_g2_bytes(w, P, comp); auto b = model_g2_bytes(w, sP, comp); el = {{2, 0}, {2, mb.size()}}; mb.insert(mb.end(), b.begin(), b.end()); }
        else if (k == 1) { Id* d = pick_id(op.arg(1)); if (!d) return; obj = &d->id; mb = model_g1_bytes(w, d->Q, comp); el = {{1, 0}}; }
        else if (k == 2) { if (sks.empty()) return; Sk& s = sks[(size_t) op.arg(1) % sks.size()]; obj = &s.sk; mb = model_g1_bytes(w, sq_of(s.sk), comp); el = {{1, 0}}; }
        else { if (cts.empty()) return; Ct& c = cts[(size_t) op.arg(1) % cts.size()]; obj = &c.ct; mb = model_g2_bytes(w, rp_of(c.ct), comp); el = {{2, 0}}; }
        env.lib_calls += 2;
        size_t n = R.jv_lq_get_marshalled_length(view, oks[k], comp);
        env.check(n == mb.size(), "C15", "length:matches-format", strf("%s get_marshalled_length = %zu, the format needs %zu", names[k], n, mb.size()));
        size_t pad = (R.info.sanitized && (env.step & 1)) ? 0 : 256; MBytes b(n + pad, (size_t) (env.step % 5) * 3, 0xA5); R.jv_lq_marshal(view, oks[k], b.p, *obj, comp);
        for (size_t i = n; i < n + pad; i++) env.check(b.p[i] == 0xA5, "C15", "marshal:writes-exactly-reported-length", std::string(names[k]) + " marshal wrote beyond the reported length");
        std::vector<uint8_t> bytes(b.p, b.p + n);
        env.check(bytes == mb, "C15", "marshal:layout", std::string(names[k]) + " bytes differ from the format");
        std::vector<uint8_t> dmg = bytes; std::string ftag; bool invalid = false; std::string why;
        for (auto& tok : op.s) {
            std::vector<std::string> p; { std::string cur; for (char c : tok) { if (c == ':') { p.push_back(cur); cur.clear(); } else cur += c; } p.push_back(cur); }
            bool fired = false;
            if (p[0] == "elem" && p.size() >= 3) { auto& e = el[(size_t) atoi(p[1].c_str()) % el.size()]; fired = substitute_element(R, dmg, e.second, e.first, comp, p[2], p.size() > 3 ? strtoull(p[3].c_str(), nullptr, 10) : 1); ftag += "elem:" + p[2] + "+"; env.count((fired ? "fault:elem_" : "fault_not_applicable:elem_") + p[2]); }
            else if (p[0] == "flip") { fired = apply_byte_fault(dmg, tok); ftag += "flip+"; env.count("fault:flip"); }
        }
        for (auto& e : el) { std::string w1; if (!model_canonical(R, e.first, comp, &dmg[e.second], w1)) { invalid = true; why = w1; break; } }
        MBytes in(dmg.data(), dmg.size(), (size_t) (env.step % 7) * 2 + 1); Buf o2(R.sz(szs[k])); env.lib_calls++;
        int ok = R.jv_lq_unmarshal(view, oks[k], o2, in.p, comp, checked);
        env.logf("LQHOP %s c%d k%d %s ok=%d invalid=%d", names[k], comp, checked, ftag.c_str(), ok, invalid);
        if (checked && invalid && ok) env.fail("C15", "validating-unmarshal-rejects-invalid-element", strf("validating %s unmarshal accepted an invalid embedded element (%s), fault %s", names[k], why.c_str(), ftag.c_str()));
        if (!invalid && !ok) env.fail("C15", "validating-unmarshal-accepts-valid-elements", strf("%s unmarshal rejected a buffer of valid elements, fault %s", names[k], ftag.c_str()));
        if (ok) { Bytes b2(n, 0); R.jv_lq_marshal(view, oks[k], b2.p, o2, comp); if (!invalid) env.check(memcmp(b2.p, dmg.data(), n) == 0, "C15", "roundtrip:remarshal-identical", std::string(names[k]) + ": marshal(unmarshal(bytes)) != bytes"); }
        env.add_case(strf("lqhop %s c%d k%d %s ok%d", names[k], comp, checked, ftag.c_str(), ok), dmg != bytes);
    }

    void run() {
        setup();
        for (size_t i = 0; i < plan.ops.size(); i++) {
            const Op& op = plan.ops[i]; env.step = (int) i + 1;
            if (op.kind == "ID") op_id(op); else if (op.kind == "MSKHOP") op_mskhop(op); else if (op.kind == "KEYGEN") op_keygen(op);
            else if (op.kind == "ENC") op_enc(op); else if (op.kind == "ENCHUGE") op_enchuge(op); else if (op.kind == "DEC") op_dec(op); else if (op.kind == "HOP") op_hop(op);
        }
    }
};

struct LqScenario : Scenario {
    const char* name() const override { return "lq"; }
    int step_offset() const override { return 1; }
    static std::string rhex(Rng& r, size_t n) { std::vector<uint8_t> b(n); r.fill(b.data(), n); return hex(b.data(), n); }
    Plan generate(uint64_t seed, const std::map<std::string, int64_t>& knobs) override {
        Rng r(seed); Plan p; p.scenario = name(); p.cfg["setup_seed"] = (int64_t) (r.next() >> 1);
        auto kn = [&](const char* k, int64_t d) { auto it = knobs.find(k); return it == knobs.end() ? d : it->second; };
        bool hopenum = kn("hopenum", 0) != 0;
        p.ops.push_back({"ID", {}, {rhex(r, 48)}}); p.ops.push_back({"ID", {}, {rhex(r, 48)}});
        if (hopenum) {
            p.ops.push_back({"KEYGEN", {0}, {}}); p.ops.push_back({"ENC", {(int64_t) (r.next() >> 1), 0, 3}, {}});
            std::vector<std::string> kinds = invalid_kinds(); kinds.push_back("other"); kinds.push_back("infinity");
            for (int k = 0; k < 4; k++) for (int comp = 0; comp < 2; comp++) for (int chk = 0; chk < 2; chk++) {
                p.ops.push_back({"HOP", {k, 0, comp, chk}, {}});
                for (int e = 0; e < (k == 0 ? 2 : 1); e++) for (auto& kd : kinds) p.ops.push_back({"HOP", {k, 0, comp, chk}, {strf("elem:%d:%s:%llu", e, kd.c_str(), (unsigned long long) (r.next() >> 8))}});
            }
            return p;
        }
        if (r.chance(1, 8)) p.cfg["setup_torsion"] = 1;
        if (r.chance(1, 8)) p.cfg["setup_reject"] = 1 + (int64_t) r.below(2);
        int n = r.range(3, 20);
        static const char* sf[] = {"storm8", "tupler", "tuplerm1", "tuple1", "digitxm1", "tuple0"};
        for (int i = 0; i < n; i++) {
            int k = r.range(0, 11); int64_t ss = (int64_t) (r.next() >> 1);
            if (k == 0) p.ops.push_back({"ID", {}, {r.chance(1, 5) ? long_walk_digest((unsigned) r.below(4)) : rhex(r, 48)}});
            else if (k == 1) { Op o{"MSKHOP", {r.chance(1, 2), r.chance(1, 2)}, {}}; int m = r.range(0, 6); if (m == 1) o.s.push_back(strf("flip:%d:%d", r.range(28, 31), r.range(4, 7))); else if (m == 5) o.s.push_back("val:" + glv_code(r)); else if (m == 6) o.s.push_back("val:" + value_codes()[r.below(value_codes().size())]); else if (m == 2) o.s.push_back("ge_r"); else if (m == 3) o.s.push_back("max"); else if (m == 4) o.s.push_back(strf("set:31:%d", r.range(0x74, 0xFF))); p.ops.push_back(o); }
            else if (k <= 3) p.ops.push_back({"KEYGEN", {(int64_t) r.below(8)}, {}});
            else if (k == 6 && r.chance(1, 12)) p.ops.push_back({"ENCHUGE", {ss, (int64_t) r.below(8)}, {}});
            else if (k <= 6) { Op o{"ENC", {ss, (int64_t) r.below(8), (int64_t) r.below(6)}, {}}; if (r.chance(1, 3)) o.s.push_back(sf[r.below(6)]); else if (r.chance(1, 12)) o.s.push_back(r.chance(1, 2) ? std::string("cancel:h") : strf("cancel:r%d", (int) r.below(4))); p.ops.push_back(o); }
            else if (k <= 9) p.ops.push_back({"DEC", {(int64_t) r.below(8), (int64_t) r.below(6), r.chance(1, 2), (int64_t) r.below(512)}, {}});
            else { Op o{"HOP", {(int64_t) r.below(4), (int64_t) r.below(8), r.chance(1, 2), r.chance(2, 3)}, {}}; int m = r.range(0, 3); if (m == 1) o.s.push_back(strf("elem:%d:%s:%llu", (int) r.below(2), invalid_kinds()[r.below(invalid_kinds().size())].c_str(), (unsigned long long) (r.next() >> 8))); else if (m == 2) o.s.push_back(strf("flip:%d:%d", (int) r.below(192), r.range(0, 7))); p.ops.push_back(o); }
        }
        return p;
    }
    void run(const Plan& plan, RunEnv& env) override { LqRun run(env, plan); run.run(); }
    std::vector<Op> simplify_op(const Plan& p, size_t i) override {
        std::vector<Op> out; const Op& op = p.ops[i];
        if (op.kind != "ID") for (size_t k = 0; k < op.s.size(); k++) { Op o = op; o.s.erase(o.s.begin() + (long) k); out.push_back(o); }
        for (size_t k = op.kind == "ENC" ? 1 : 0; k < op.a.size(); k++) if (op.a[k] != 0) { Op o = op; o.a[k] = 0; out.push_back(o); }
        return out;
    }
};

static ScenarioReg reg_lq(new LqScenario());

} // namespace jv
