// armsim.cpp - see armsim.hpp.
#include "armsim.hpp"
#include "rep.hpp"
#include "bn.hpp"
#include <string.h>
#include <stdlib.h>
#include <algorithm>
#include <functional>

namespace jv {

enum {
    OP_NONE = 0,
    // AArch64
    A_LDP, A_STP, A_LDR, A_STR, A_ADD, A_ADDS, A_ADC, A_ADCS, A_SUB, A_SUBS, A_SBC, A_SBCS, A_CMP, A_CMN, A_MUL, A_UMULH, A_CSET, A_MOV, A_B, A_BCOND, A_RET,
    A_AND, A_ORR, A_EOR, A_LSL, A_LSR, A_NEG, A_NGC,
    // Thumb-1 (divided syntax: the data-processing forms on low registers set the flags)
    T_ADD, T_ADC, T_SUB, T_SBC, T_NEG, T_EOR, T_AND, T_ORR, T_MUL, T_LSL, T_LSR, T_UXTH, T_MOV, T_LDR, T_STR, T_LDM, T_STM, T_PUSH, T_POP, T_BL, T_BX, T_CMP, T_B, T_BCOND
};

static const uint64_t RET_SENTINEL = 0xFFFFFFF1u;

// ---------------------------------------------------------------- text front end
static std::string trim(const std::string& s) { size_t a = s.find_first_not_of(" \t\r\n"), b = s.find_last_not_of(" \t\r\n"); return a == std::string::npos ? "" : s.substr(a, b - a + 1); }
static std::string lower(std::string s) { for (auto& c : s) c = (char) tolower((unsigned char) c); return s; }

static std::vector<std::string> split_operands(const std::string& s) {
    std::vector<std::string> out; std::string cur; int depth = 0;
    for (char c : s) {
        if (c == '[' || c == '{' || c == '(') depth++;
        if (c == ']' || c == '}' || c == ')') depth--;
        if (c == ',' && depth == 0) { out.push_back(trim(cur)); cur.clear(); } else cur += c;
    }
    if (!trim(cur).empty()) out.push_back(trim(cur));
    return out;
}

// integer expressions: + - * ( ) decimal/hex literals
struct Expr {
    const std::string& s; size_t i = 0; bool ok = true;
    explicit Expr(const std::string& t) : s(t) {}
    void ws() { while (i < s.size() && isspace((unsigned char) s[i])) i++; }
    int64_t prim() {
        ws(); if (i >= s.size()) { ok = false; return 0; }
        if (s[i] == '(') { i++; int64_t v = sum(); ws(); if (i < s.size() && s[i] == ')') i++; else ok = false; return v; }
        if (s[i] == '-') { i++; return -prim(); }
        if (s[i] == '+') { i++; return prim(); }
        if (!isdigit((unsigned char) s[i])) { ok = false; return 0; }
        char* e = nullptr; long long v = strtoll(s.c_str() + i, &e, 0); i = (size_t) (e - s.c_str()); return v;
    }
    int64_t prod() { int64_t v = prim(); for (;;) { ws(); if (i < s.size() && s[i] == '*') { i++; v *= prim(); } else return v; } }
    int64_t sum() { int64_t v = prod(); for (;;) { ws(); if (i < s.size() && s[i] == '+') { i++; v += prod(); } else if (i < s.size() && s[i] == '-') { i++; v -= prod(); } else return v; } }
    bool eval(int64_t& v) { v = sum(); ws(); return ok && i == s.size(); }
};
static bool parse_imm(const std::string& t, int64_t& v) { std::string s = trim(t); if (!s.empty() && s[0] == '#') s = s.substr(1); Expr e(s); return e.eval(v); }

struct Macro { std::vector<std::string> params; std::vector<std::string> body; };

struct Line { std::string text, where; };

static bool read_lines(const std::string& path, bool is64, std::vector<Line>& out, std::string& err) {
    std::string txt; if (!read_file(path, txt)) { err = "cannot read " + path; return false; }
    // block comments
    for (size_t p; (p = txt.find("/*")) != std::string::npos;) { size_t e = txt.find("*/", p + 2); if (e == std::string::npos) { txt.erase(p); break; } for (size_t i = p; i < e + 2; i++) if (txt[i] != '\n') txt[i] = ' '; }
    size_t ln = 0, pos = 0; std::string base = path.substr(path.rfind('/') == std::string::npos ? 0 : path.rfind('/') + 1);
    while (pos <= txt.size()) {
        size_t e = txt.find('\n', pos); if (e == std::string::npos) e = txt.size();
        std::string l = txt.substr(pos, e - pos); pos = e + 1; ln++;
        size_t c = is64 ? l.find("//") : l.find('@'); if (c != std::string::npos) l.erase(c);
        l = trim(l); if (!l.empty()) out.push_back({l, base + ":" + std::to_string(ln)});
        if (e == txt.size()) break;
    }
    return true;
}

static int a64_reg(const std::string& t) {
    std::string s = lower(trim(t));
    if (s == "xzr") return 31; if (s == "sp") return 32; if (s == "lr") return 30;
    if (s.size() >= 2 && s[0] == 'x' && isdigit((unsigned char) s[1])) { int n = atoi(s.c_str() + 1); if (n >= 0 && n <= 30 && std::to_string(n) == s.substr(1)) return n; }
    return -1;
}
static int t_reg(const std::string& t) {
    std::string s = lower(trim(t));
    if (s == "sp") return 13; if (s == "lr") return 14; if (s == "pc") return 15;
    if (s.size() >= 2 && s[0] == 'r' && isdigit((unsigned char) s[1])) { int n = atoi(s.c_str() + 1); if (n >= 0 && n <= 15 && std::to_string(n) == s.substr(1)) return n; }
    return -1;
}
static int cond_code(const std::string& c) {
    static const char* names[] = {"eq", "ne", "cs", "cc", "mi", "pl", "vs", "vc", "hi", "ls", "ge", "lt", "gt", "le", "al"};
    std::string s = lower(c); if (s == "hs") s = "cs"; if (s == "lo") s = "cc";
    for (int i = 0; i < 15; i++) if (s == names[i]) return i;
    return -1;
}

// memory operand "[rn]", "[rn, #imm]", "[rn, #imm]!"; post-index immediate comes as a separate operand
static bool parse_mem(const std::string& t, bool is64, int& rn, int64_t& imm, int& mode) {
    std::string s = trim(t); mode = 0; imm = 0;
    if (!s.empty() && s.back() == '!') { mode = 1; s = trim(s.substr(0, s.size() - 1)); }
    if (s.size() < 3 || s[0] != '[' || s.back() != ']') return false;
    auto parts = split_operands(s.substr(1, s.size() - 2));
    if (parts.empty() || parts.size() > 2) return false;
    rn = is64 ? a64_reg(parts[0]) : t_reg(parts[0]); if (rn < 0) return false;
    if (parts.size() == 2 && !parse_imm(parts[1], imm)) return false;
    return true;
}
static bool parse_reglist(const std::string& t, uint32_t& list) {
    std::string s = trim(t); if (s.size() < 2 || s[0] != '{' || s.back() != '}') return false; list = 0;
    for (auto& part : split_operands(s.substr(1, s.size() - 2))) {
        size_t d = part.find('-');
        if (d != std::string::npos) { int a = t_reg(part.substr(0, d)), b = t_reg(part.substr(d + 1)); if (a < 0 || b < a) return false; for (int r = a; r <= b; r++) list |= 1u << r; }
        else { int r = t_reg(part); if (r < 0) return false; list |= 1u << r; }
    }
    return list != 0;
}

static bool decode(const std::string& mn0, const std::vector<std::string>& o, bool is64, ArmInsn& in, std::string& err) {
    std::string mn = lower(mn0); size_t n = o.size();
    auto bad = [&](const char* why) { err = std::string(why); return false; };
    if (is64) {
        auto R = [&](size_t i) { return i < n ? a64_reg(o[i]) : -1; };
        auto rri = [&](int op) {   // rd, rn, (rm | #imm)
            in.op = op; if (n != 3) return bad("operand count"); in.rd = R(0); in.rn = R(1); if (in.rd < 0 || in.rn < 0) return bad("register");
            in.rm = R(2); if (in.rm < 0) { if (!parse_imm(o[2], in.imm)) return bad("operand 3"); in.has_imm = true; } return true; };
        if (mn == "ldp" || mn == "stp") {
            in.op = mn == "ldp" ? A_LDP : A_STP; if (n < 3 || n > 4) return bad("operand count"); in.rd = R(0); in.ra = R(1); if (in.rd < 0 || in.ra < 0) return bad("register");
            if (!parse_mem(o[2], true, in.rn, in.imm, in.mode)) return bad("memory operand"); if (n == 4) { if (in.mode != 0 || in.imm != 0 || !parse_imm(o[3], in.imm)) return bad("post-index"); in.mode = 2; } return true;
        }
        if (mn == "ldr" || mn == "str") {
            in.op = mn == "ldr" ? A_LDR : A_STR; if (n < 2 || n > 3) return bad("operand count"); in.rd = R(0); if (in.rd < 0) return bad("register");
            if (!parse_mem(o[1], true, in.rn, in.imm, in.mode)) return bad("memory operand"); if (n == 3) { if (in.mode != 0 || in.imm != 0 || !parse_imm(o[2], in.imm)) return bad("post-index"); in.mode = 2; } return true;
        }
        if (mn == "add") return rri(A_ADD); if (mn == "adds") return rri(A_ADDS); if (mn == "adc") return rri(A_ADC); if (mn == "adcs") return rri(A_ADCS);
        if (mn == "sub") return rri(A_SUB); if (mn == "subs") return rri(A_SUBS); if (mn == "sbc") return rri(A_SBC); if (mn == "sbcs") return rri(A_SBCS);
        if (mn == "and") return rri(A_AND); if (mn == "orr") return rri(A_ORR); if (mn == "eor") return rri(A_EOR); if (mn == "lsl") return rri(A_LSL); if (mn == "lsr") return rri(A_LSR);
        if (mn == "mul") { if (!rri(A_MUL)) return false; return in.has_imm ? bad("mul immediate") : true; }
        if (mn == "umulh") { if (!rri(A_UMULH)) return false; return in.has_imm ? bad("umulh immediate") : true; }
        if (mn == "cmp" || mn == "cmn") { in.op = mn == "cmp" ? A_CMP : A_CMN; if (n != 2) return bad("operand count"); in.rn = R(0); if (in.rn < 0) return bad("register"); in.rm = R(1); if (in.rm < 0) { if (!parse_imm(o[1], in.imm)) return bad("operand 2"); in.has_imm = true; } return true; }
        if (mn == "mov" || mn == "neg" || mn == "ngc") { in.op = mn == "mov" ? A_MOV : mn == "neg" ? A_NEG : A_NGC; if (n != 2) return bad("operand count"); in.rd = R(0); if (in.rd < 0) return bad("register"); in.rm = R(1); if (in.rm < 0) { if (mn != "mov" || !parse_imm(o[1], in.imm)) return bad("operand 2"); in.has_imm = true; } return true; }
        if (mn == "cset") { in.op = A_CSET; if (n != 2) return bad("operand count"); in.rd = R(0); in.cond = cond_code(o[1]); if (in.rd < 0 || in.cond < 0) return bad("operand"); return true; }
        if (mn == "ret") { in.op = A_RET; return n == 0 ? true : bad("ret with operand"); }
        if (mn == "b") { in.op = A_B; if (n != 1) return bad("operand count"); in.sym = o[0]; return true; }
        if (mn.size() > 2 && mn[0] == 'b' && mn[1] == '.') { in.op = A_BCOND; in.cond = cond_code(mn.substr(2)); if (in.cond < 0 || n != 1) return bad("condition"); in.sym = o[0]; return true; }
        return bad("unsupported AArch64 instruction");
    }
    auto R = [&](size_t i) { return i < n ? t_reg(o[i]) : -1; };
    auto dp = [&](int op) {   // rd, rn, (rm | #imm)  or the two-operand form rd, (rm | #imm)
        in.op = op; if (n < 2 || n > 3) return bad("operand count"); in.rd = R(0); if (in.rd < 0) return bad("register");
        if (n == 3) { in.rn = R(1); if (in.rn < 0) return bad("register"); } else in.rn = in.rd;
        in.rm = R(n - 1); if (in.rm < 0) { if (!parse_imm(o[n - 1], in.imm)) return bad("last operand"); in.has_imm = true; } return true; };
    if (mn == "add") return dp(T_ADD); if (mn == "adc") return dp(T_ADC); if (mn == "sub") return dp(T_SUB); if (mn == "sbc") return dp(T_SBC);
    if (mn == "eor") return dp(T_EOR); if (mn == "and") return dp(T_AND); if (mn == "orr") return dp(T_ORR); if (mn == "mul") return dp(T_MUL);
    if (mn == "lsl") return dp(T_LSL); if (mn == "lsr") return dp(T_LSR);
    if (mn == "neg" || mn == "uxth" || mn == "mov" || mn == "cmp") {
        in.op = mn == "neg" ? T_NEG : mn == "uxth" ? T_UXTH : mn == "mov" ? T_MOV : T_CMP; if (n != 2) return bad("operand count"); in.rd = R(0); if (in.rd < 0) return bad("register");
        in.rm = R(1); if (in.rm < 0) { if ((mn != "mov" && mn != "cmp") || !parse_imm(o[1], in.imm)) return bad("operand 2"); in.has_imm = true; } return true;
    }
    if (mn == "ldr" || mn == "str") { in.op = mn == "ldr" ? T_LDR : T_STR; if (n != 2) return bad("operand count"); in.rd = R(0); if (in.rd < 0) return bad("register"); if (!parse_mem(o[1], false, in.rn, in.imm, in.mode) || in.mode != 0) return bad("memory operand"); return true; }
    if (mn == "ldm" || mn == "ldmia" || mn == "stm" || mn == "stmia") {
        in.op = mn[0] == 'l' ? T_LDM : T_STM; if (n != 2) return bad("operand count"); std::string b = trim(o[0]); in.mode = 0; if (!b.empty() && b.back() == '!') { in.mode = 1; b = b.substr(0, b.size() - 1); }
        in.rn = t_reg(b); if (in.rn < 0 || !parse_reglist(o[1], in.reglist)) return bad("register list"); return true;
    }
    if (mn == "push" || mn == "pop") { in.op = mn == "push" ? T_PUSH : T_POP; if (n != 1 || !parse_reglist(o[0], in.reglist)) return bad("register list"); return true; }
    if (mn == "bl") { in.op = T_BL; if (n != 1) return bad("operand count"); in.sym = o[0]; return true; }
    if (mn == "bx") { in.op = T_BX; if (n != 1) return bad("operand count"); in.rm = R(0); return in.rm < 0 ? bad("register") : true; }
    if (mn == "b") { in.op = T_B; if (n != 1) return bad("operand count"); in.sym = o[0]; return true; }
    if (mn.size() == 3 && mn[0] == 'b' && cond_code(mn.substr(1)) >= 0) { in.op = T_BCOND; in.cond = cond_code(mn.substr(1)); if (n != 1) return bad("operand count"); in.sym = o[0]; return true; }
    return bad("unsupported Thumb instruction");
}

bool ArmProg::load(const std::vector<std::string>& files, bool is64_) {
    is64 = is64_; ok = false; code.clear(); labels.clear(); err.clear();
    std::vector<Line> lines; for (auto& f : files) if (!read_lines(f, is64, lines, err)) return false;
    std::map<std::string, Macro> macros;
    // pass 1: collect macros, keep the rest
    std::vector<Line> top;
    for (size_t i = 0; i < lines.size(); i++) {
        const std::string& l = lines[i].text;
        if (l.compare(0, 6, ".macro") == 0 && (l.size() == 6 || isspace((unsigned char) l[6]))) {
            std::string rest = trim(l.substr(6)); size_t sp = rest.find_first_of(" \t,"); std::string name = rest.substr(0, sp); Macro m;
            if (sp != std::string::npos) { std::string ps = rest.substr(sp); for (auto& c : ps) if (c == ',') c = ' '; std::string cur; for (char c : ps + " ") { if (isspace((unsigned char) c)) { if (!cur.empty()) m.params.push_back(cur); cur.clear(); } else cur += c; } }
            size_t j = i + 1; for (; j < lines.size() && lines[j].text.compare(0, 5, ".endm") != 0; j++) m.body.push_back(lines[j].text);
            if (j >= lines.size()) { err = "unterminated .macro " + name + " at " + lines[i].where; return false; }
            macros[name] = m; i = j;
        } else top.push_back(lines[i]);
    }
    // pass 2: expand
    struct Pending { size_t idx; std::string sym; };
    std::vector<Pending> fixups;
    std::function<bool(const std::string&, const std::string&, int)> emit = [&](const std::string& text, const std::string& where, int depth) -> bool {
        std::string l = trim(text); if (l.empty()) return true;
        if (depth > 40) { err = "macro recursion too deep at " + where; return false; }
        // label(s)
        size_t colon = l.find(':');
        if (colon != std::string::npos && l.find_first_of(" \t[{#,") > colon) { labels[trim(l.substr(0, colon))] = (int) code.size(); return emit(l.substr(colon + 1), where, depth); }
        if (l[0] == '.') return true;   // directives carry no semantics here (.text .thumb .globl .type .align ...)
        size_t sp = l.find_first_of(" \t"); std::string mn = l.substr(0, sp), rest = sp == std::string::npos ? "" : trim(l.substr(sp));
        auto mi = macros.find(mn);
        if (mi != macros.end()) {
            // macro arguments are separated by commas or (as GNU as and clang both accept) by blanks
            std::vector<std::string> args; for (auto& piece : split_operands(rest)) { std::string cur; int depth = 0; for (char ch : piece + " ") { if (ch == '[' || ch == '{' || ch == '(') depth++; if (ch == ']' || ch == '}' || ch == ')') depth--; if (isspace((unsigned char) ch) && depth == 0) { if (!cur.empty()) args.push_back(cur); cur.clear(); } else cur += ch; } }
            const Macro& m = mi->second;
            if (args.size() > m.params.size()) { err = "too many arguments for macro " + mn + " at " + where; return false; }
            std::vector<size_t> order(m.params.size()); for (size_t k = 0; k < order.size(); k++) order[k] = k;
            std::sort(order.begin(), order.end(), [&](size_t a, size_t b) { return m.params[a].size() > m.params[b].size(); });   // longest name first
            for (auto& bl : m.body) {
                std::string t = bl;
                for (size_t k : order) { std::string pat = "\\" + m.params[k], val = k < args.size() ? args[k] : ""; for (size_t p = 0; (p = t.find(pat, p)) != std::string::npos;) { t.replace(p, pat.size(), val); p += val.size(); } }
                if (t.find('\\') != std::string::npos) { err = "unresolved macro parameter in '" + t + "' (" + mn + " at " + where + ")"; return false; }
                if (!emit(t, where, depth + 1)) return false;
            }
            return true;
        }
        ArmInsn in; in.text = l; in.where = where; std::string derr;
        if (!decode(mn, split_operands(rest), is64, in, derr)) { err = derr + ": '" + l + "' at " + where; return false; }
        if (!in.sym.empty()) fixups.push_back({code.size(), in.sym});
        code.push_back(in); return true;
    };
    for (auto& ln : top) if (!emit(ln.text, ln.where, 0)) return false;
    for (auto& f : fixups) { auto it = labels.find(f.sym); code[f.idx].target = it == labels.end() ? -2 : it->second; }
    ok = true; return true;
}

// ---------------------------------------------------------------- machine
void ArmMachine::reset() { memset(x, 0, sizeof(x)); N = Z = C = V = false; fault.clear(); steps = 0; regions.clear(); }

bool ArmMachine::rd_mem(uint64_t addr, size_t n, uint64_t& v) {
    for (auto& r : regions) if (addr >= r.lo && addr + n <= r.hi) { v = 0; memcpy(&v, &mem[addr], n); return true; }
    fault = strf("read of %zu bytes at guest address 0x%llx is outside the operands and the stack", n, (unsigned long long) addr); return false;
}
bool ArmMachine::wr_mem(uint64_t addr, size_t n, uint64_t v) {
    for (auto& r : regions) if (addr >= r.lo && addr + n <= r.hi) { if (!r.writable) { fault = strf("write of %zu bytes at guest address 0x%llx goes to a read-only (const) operand", n, (unsigned long long) addr); return false; } memcpy(&mem[addr], &v, n); return true; }
    fault = strf("write of %zu bytes at guest address 0x%llx is outside the operands and the stack", n, (unsigned long long) addr); return false;
}

static inline bool cond_holds(int c, bool N, bool Z, bool C, bool V) {
    switch (c) { case 0: return Z; case 1: return !Z; case 2: return C; case 3: return !C; case 4: return N; case 5: return !N; case 6: return V; case 7: return !V;
    case 8: return C && !Z; case 9: return !C || Z; case 10: return N == V; case 11: return N != V; case 12: return !Z && N == V; case 13: return Z || N != V; default: return true; }
}

bool ArmMachine::run(const std::string& entry) {
    const ArmProg& P = *prog; auto it = P.labels.find(entry);
    if (it == P.labels.end()) { fault = "no such routine in the assembly source: " + entry; return false; }
    size_t pc = (size_t) it->second; const bool is64 = P.is64;
    if (is64) x[30] = RET_SENTINEL; else x[14] = RET_SENTINEL;
    auto rg = [&](int r) -> uint64_t { return is64 ? (r == 31 ? 0 : x[r]) : (uint32_t) x[r]; };
    auto wr = [&](int r, uint64_t v) { if (is64) { if (r != 31) x[r] = v; } else x[r] = (uint32_t) v; };
    auto addc64 = [&](uint64_t a, uint64_t b, bool cin, bool setf) -> uint64_t {
        unsigned __int128 s = (unsigned __int128) a + b + (cin ? 1 : 0); uint64_t r = (uint64_t) s;
        if (setf) { C = (s >> 64) != 0; N = r >> 63; Z = r == 0; V = (~(a ^ b) & (a ^ r)) >> 63; } return r; };
    auto addc32 = [&](uint32_t a, uint32_t b, bool cin, bool setf) -> uint32_t {
        uint64_t s = (uint64_t) a + b + (cin ? 1 : 0); uint32_t r = (uint32_t) s;
        if (setf) { C = (s >> 32) != 0; N = r >> 31; Z = r == 0; V = (~(a ^ b) & (a ^ r)) >> 31; } return r; };
    for (;;) {
        if (pc >= P.code.size()) { fault = "execution ran off the end of the source"; return false; }
        if (++steps > 2000000) { fault = "routine did not return within 2,000,000 instructions"; return false; }
        const ArmInsn& I = P.code[pc]; size_t next = pc + 1;
        auto fl = [&](const std::string& m) { fault = m + " [" + I.text + " at " + I.where + "]"; return false; };
        uint64_t op2 = I.has_imm ? (uint64_t) I.imm : (I.rm >= 0 ? rg(I.rm) : 0);
        switch (I.op) {
        // ------------------------------------------------ AArch64
        case A_LDP: case A_STP: case A_LDR: case A_STR: {
            uint64_t base = I.rn == 32 ? x[32] : rg(I.rn), addr = I.mode == 2 ? base : base + (uint64_t) I.imm; bool pair = I.op == A_LDP || I.op == A_STP;
            if (I.op == A_LDP || I.op == A_LDR) { uint64_t v0, v1 = 0; if (!rd_mem(addr, 8, v0) || (pair && !rd_mem(addr + 8, 8, v1))) return fl(fault); wr(I.rd, v0); if (pair) wr(I.ra, v1); }
            else { if (!wr_mem(addr, 8, rg(I.rd)) || (pair && !wr_mem(addr + 8, 8, rg(I.ra)))) return fl(fault); }
            if (I.mode != 0) { if (I.rn == 32) x[32] = base + (uint64_t) I.imm; else wr(I.rn, base + (uint64_t) I.imm); }
            break; }
        case A_ADD: case A_ADDS: case A_ADC: case A_ADCS: case A_SUB: case A_SUBS: case A_SBC: case A_SBCS: case A_CMP: case A_CMN: {
            bool sub = I.op == A_SUB || I.op == A_SUBS || I.op == A_SBC || I.op == A_SBCS || I.op == A_CMP;
            bool withc = I.op == A_ADC || I.op == A_ADCS || I.op == A_SBC || I.op == A_SBCS;
            bool setf = I.op == A_ADDS || I.op == A_ADCS || I.op == A_SUBS || I.op == A_SBCS || I.op == A_CMP || I.op == A_CMN;
            bool spform = !setf && !withc && (I.rd == 32 || I.rn == 32);
            uint64_t a = (I.rn == 32) ? x[32] : rg(I.rn), b = op2;
            uint64_t r = addc64(a, sub ? ~b : b, withc ? C : sub, setf);
            if (I.op == A_CMP || I.op == A_CMN) break;
            if (I.rd == 32) { if (!spform) return fl("sp as destination of a flag-setting/carry instruction"); x[32] = r; } else wr(I.rd, r);
            break; }
        case A_AND: wr(I.rd, rg(I.rn) & op2); break; case A_ORR: wr(I.rd, rg(I.rn) | op2); break; case A_EOR: wr(I.rd, rg(I.rn) ^ op2); break;
        case A_LSL: wr(I.rd, rg(I.rn) << (op2 & 63)); break; case A_LSR: wr(I.rd, rg(I.rn) >> (op2 & 63)); break;
        case A_NEG: wr(I.rd, 0 - rg(I.rm)); break; case A_NGC: wr(I.rd, addc64(0, ~rg(I.rm), C, false)); break;
        case A_MUL: wr(I.rd, rg(I.rn) * rg(I.rm)); break;
        case A_UMULH: wr(I.rd, (uint64_t) (((unsigned __int128) rg(I.rn) * rg(I.rm)) >> 64)); break;
        case A_CSET: wr(I.rd, cond_holds(I.cond, N, Z, C, V) ? 1 : 0); break;
        case A_MOV: if (I.rd == 32) x[32] = I.has_imm ? (uint64_t) I.imm : (I.rm == 32 ? x[32] : rg(I.rm)); else wr(I.rd, I.has_imm ? (uint64_t) I.imm : (I.rm == 32 ? x[32] : rg(I.rm))); break;
        case A_B: case A_BCOND: if (I.op == A_B || cond_holds(I.cond, N, Z, C, V)) { if (I.target < 0) return fl("branch to a symbol outside the source"); next = (size_t) I.target; } break;
        case A_RET: if (x[30] == RET_SENTINEL) return true; return fl("ret to an unknown address");
        // ------------------------------------------------ Thumb-1
        case T_ADD: case T_SUB: case T_ADC: case T_SBC: case T_CMP: {
            bool sub = I.op == T_SUB || I.op == T_SBC || I.op == T_CMP, withc = I.op == T_ADC || I.op == T_SBC;
            int rn = I.op == T_CMP ? I.rd : I.rn; bool high = I.rd > 7 || rn > 7 || (I.rm > 7);
            bool setf = I.op == T_CMP || !high;   // ADD/SUB with sp or a high register do not touch the flags; ADC/SBC exist for low registers only
            if (withc && high) return fl("adc/sbc with a high register does not exist in Thumb-1");
            uint32_t a = (uint32_t) rg(rn), b = (uint32_t) op2; uint32_t r = addc32(a, sub ? ~b : b, withc ? C : sub, setf);
            if (I.op != T_CMP) wr(I.rd, r); break; }
        case T_NEG: { if (I.rd > 7 || I.rm > 7) return fl("neg with a high register"); wr(I.rd, addc32(0, ~(uint32_t) rg(I.rm), true, true)); break; }
        case T_EOR: case T_AND: case T_ORR: { if (I.rd > 7 || I.rn > 7 || I.rm > 7 || I.has_imm) return fl("logical operation form not in Thumb-1");
            uint32_t a = (uint32_t) rg(I.rn), b = (uint32_t) rg(I.rm), r = I.op == T_EOR ? a ^ b : I.op == T_AND ? a & b : a | b; wr(I.rd, r); N = r >> 31; Z = r == 0; break; }
        case T_MUL: { if (I.rd > 7 || I.rn > 7 || I.rm > 7 || I.has_imm) return fl("mul form not in Thumb-1"); if (I.rd != I.rn && I.rd != I.rm) return fl("Thumb-1 mul needs the destination to be one of the operands");
            uint32_t r = (uint32_t) rg(I.rn) * (uint32_t) rg(I.rm); wr(I.rd, r); N = r >> 31; Z = r == 0; break; }
        case T_LSL: case T_LSR: {
            if (I.rd > 7 || I.rn > 7) return fl("shift with a high register"); uint32_t a = (uint32_t) rg(I.rn), r; uint32_t sh = (uint32_t) (I.has_imm ? I.imm : (rg(I.rm) & 0xFF));
            if (I.op == T_LSL) { if (sh == 0) r = a; else if (sh < 32) { C = (a >> (32 - sh)) & 1; r = a << sh; } else if (sh == 32) { C = a & 1; r = 0; } else { C = false; r = 0; } }
            else { if (I.has_imm && sh == 0) sh = 32; if (sh == 0) r = a; else if (sh < 32) { C = (a >> (sh - 1)) & 1; r = a >> sh; } else if (sh == 32) { C = a >> 31; r = 0; } else { C = false; r = 0; } }
            wr(I.rd, r); N = r >> 31; Z = r == 0; break; }
        case T_UXTH: if (I.rd > 7 || I.rm > 7) return fl("uxth with a high register"); wr(I.rd, (uint32_t) rg(I.rm) & 0xFFFF); break;
        case T_MOV: {
            if (I.has_imm) { if (I.rd > 7 || I.imm < 0 || I.imm > 255) return fl("mov immediate form not in Thumb-1"); uint32_t r = (uint32_t) I.imm; wr(I.rd, r); N = false; Z = r == 0; break; }
            uint32_t r = (uint32_t) rg(I.rm); wr(I.rd, r);
            if (I.rd <= 7 && I.rm <= 7 && mov_lowlow_sets_flags) { N = r >> 31; Z = r == 0; C = false; V = false; }   // ADDS rd, rm, #0
            break; }
        case T_LDR: case T_STR: {
            if (I.rd > 7 || (I.rn > 7 && I.rn != 13)) return fl("ldr/str register not allowed in Thumb-1"); if (I.imm < 0 || (I.imm & 3) || I.imm > (I.rn == 13 ? 1020 : 124)) return fl("ldr/str offset not encodable in Thumb-1");
            uint64_t addr = (uint32_t) (rg(I.rn) + (uint64_t) I.imm); if (addr & 3) return fl("unaligned word access (faults on Cortex-M0+)");
            if (I.op == T_LDR) { uint64_t v; if (!rd_mem(addr, 4, v)) return fl(fault); wr(I.rd, v); } else if (!wr_mem(addr, 4, (uint32_t) rg(I.rd))) return fl(fault);
            break; }
        case T_LDM: case T_STM: {
            if (I.rn > 7 || (I.reglist & ~0xFFu)) return fl("ldm/stm register not allowed in Thumb-1"); uint64_t addr = (uint32_t) rg(I.rn); if (addr & 3) return fl("unaligned ldm/stm base");
            bool base_in_list = (I.reglist >> I.rn) & 1;
            if (I.op == T_STM && !I.mode) return fl("stm without writeback does not exist in Thumb-1");
            for (int r = 0; r < 8; r++) if ((I.reglist >> r) & 1) { if (I.op == T_LDM) { uint64_t v; if (!rd_mem(addr, 4, v)) return fl(fault); wr(r, v); } else if (!wr_mem(addr, 4, (uint32_t) rg(r))) return fl(fault); addr += 4; }
            if (I.mode && !(I.op == T_LDM && base_in_list)) wr(I.rn, addr);
            break; }
        case T_PUSH: {
            if (I.reglist & ~(0xFFu | 1u << 14)) return fl("push register not allowed in Thumb-1"); int cnt = __builtin_popcount(I.reglist); uint64_t addr = (uint32_t) (rg(13) - 4u * (uint32_t) cnt); wr(13, addr);
            for (int r = 0; r < 15; r++) if ((I.reglist >> r) & 1) { if (!wr_mem(addr, 4, (uint32_t) rg(r))) return fl(fault); addr += 4; }
            break; }
        case T_POP: {
            if (I.reglist & ~(0xFFu | 1u << 15)) return fl("pop register not allowed in Thumb-1"); uint64_t addr = (uint32_t) rg(13); bool ret = false; uint64_t target = 0;
            for (int r = 0; r < 16; r++) if ((I.reglist >> r) & 1) { uint64_t v; if (!rd_mem(addr, 4, v)) return fl(fault); if (r == 15) { ret = true; target = v; } else wr(r, v); addr += 4; }
            wr(13, addr);
            if (ret) { if (target == RET_SENTINEL) return true; if ((target >> 28) != 0xA) return fl("pop {pc} of a value that is not a return address"); next = (size_t) (target & 0x0FFFFFFF); }
            break; }
        case T_BL: {
            if (I.target >= 0) { wr(14, 0xA0000000u | (uint32_t) (pc + 1)); next = (size_t) I.target; break; }
            if (I.sym == "embedded_pairing_core_arch_armv6_m_fpbase_384_reduce") {
                // C++ helper of the library (src/core/arch/armv6_m/fp.cpp): res = a < p ? a : a - p, 384 bits. r0 = res, r1 = a, r2 = p. AAPCS: r0-r3, r12, lr and the flags are not preserved.
                uint8_t ab[48], pb[48];
                for (int i = 0; i < 48; i += 4) { uint64_t v, w; if (!rd_mem((uint32_t) rg(1) + (uint64_t) i, 4, v) || !rd_mem((uint32_t) rg(2) + (uint64_t) i, 4, w)) return fl(fault); memcpy(ab + i, &v, 4); memcpy(pb + i, &w, 4); }
                Bn a = Bn::from_le(ab, 48), p = Bn::from_le(pb, 48), r = a < p ? a : Bn::sub(a, p); uint8_t rb[48]; r.to_le(rb, 48);
                for (int i = 0; i < 48; i += 4) { uint32_t v; memcpy(&v, rb + i, 4); if (!wr_mem((uint32_t) rg(0) + (uint64_t) i, 4, v)) return fl(fault); }
                wr(0, 0xDEAD0000u); wr(1, 0xDEAD0001u); wr(2, 0xDEAD0002u); wr(3, 0xDEAD0003u); wr(12, 0xDEAD000Cu); wr(14, 0xDEAD000Eu); N = Z = C = V = true;
                break;
            }
            return fl("call of an unknown external symbol");
        }
        case T_BX: { uint64_t t = rg(I.rm); if (t == RET_SENTINEL) return true; if ((t >> 28) != 0xA) return fl("bx to a value that is not a return address"); next = (size_t) (t & 0x0FFFFFFF); break; }
        case T_B: case T_BCOND: if (I.op == T_B || cond_holds(I.cond, N, Z, C, V)) { if (I.target < 0) return fl("branch to a symbol outside the source"); next = (size_t) I.target; } break;
        default: return fl("internal: undecoded instruction");
        }
        pc = next;
    }
}

// ---------------------------------------------------------------- pseudo-replicas
struct ArmBackend {
    ArmProg prog; ArmMachine m; const char* prefix; bool is64;
    int (*base_prim)(int, void*, const void*, const void*) = nullptr;
    std::string last_fault; uint64_t calls = 0, insns = 0;
};
static ArmBackend g_a64, g_v6m;
static std::string g_arm_last_fault;
const std::string& arm_last_fault() { return g_arm_last_fault; }

static const uint64_t G_OUT = 0x10000, G_A = 0x11000, G_B = 0x12000, G_P = 0x13000, G_SP = 0x80000;

static int arm_prim(ArmBackend& be, int code, void* out, const void* a, const void* b) {
    size_t so = 0, sa = 0, sb = 0; const char* fn = nullptr; bool a_scratch = false;   // which routine, operand sizes
    switch (code) {
    case JV_PR_BI384_ADD: fn = "bigint_384_add"; so = sa = sb = 48; break;
    case JV_PR_BI384_SUB: fn = "bigint_384_subtract"; so = sa = sb = 48; break;
    case JV_PR_BI384_SHL1: fn = "bigint_384_multiply2"; so = sa = 48; break;
    case JV_PR_BI768_MUL: fn = "bigint_768_multiply"; so = 96; sa = sb = 48; break;
    case JV_PR_BI768_SQR: fn = "bigint_768_square"; so = 96; sa = 48; break;
    case JV_PR_FP384_REDC: fn = "fpbase_384_montgomery_reduce"; so = 48; sa = 96; a_scratch = true; break;
    case JV_PR_FP384_MUL: fn = "fpbase_384_multiply"; so = sa = sb = 48; break;
    case JV_PR_FP384_SQR: fn = "fpbase_384_square"; so = sa = 48; break;
    default: return be.base_prim(code, out, a, b);   // generic C++ in the real build too: same code as the portable replica of that word size
    }
    ArmMachine& m = be.m; m.prog = &be.prog; m.reset(); be.calls++;
    // guest layout; aliasing between host operands is preserved
    uint64_t ga = (a == out) ? G_OUT : G_A, gb = (b == out) ? G_OUT : (b == a ? ga : G_B);
    if (a_scratch) ga = G_A;   // the C++ wrapper hands the routine a temporary copy of the reduction input
    memset(&m.mem[G_OUT], 0xEE, 256); memset(&m.mem[G_A], 0xEE, 256); memset(&m.mem[G_B], 0xEE, 256);
    memcpy(&m.mem[G_OUT], out, so);                 // previous content of the output object (visible if the routine leaves a byte unwritten)
    memcpy(&m.mem[ga], a, sa); if (sb) memcpy(&m.mem[gb], b, sb);
    uint8_t qb[48]; K().q.to_le(qb, 48); memcpy(&m.mem[G_P], qb, 48);
    uint64_t p0; memcpy(&p0, qb, 8); uint64_t inv = p0; for (int i = 0; i < 6; i++) inv *= 2 - p0 * inv; inv = 0 - inv;   // -q^-1 mod 2^64 (its low half is -q^-1 mod 2^32)
    m.regions.push_back({G_OUT, G_OUT + so, true});
    if (ga != G_OUT) m.regions.push_back({ga, ga + sa, a_scratch});
    if (sb && gb != G_OUT && gb != ga) m.regions.push_back({gb, gb + sb, false});
    m.regions.push_back({G_P, G_P + 48, false});
    m.regions.push_back({G_SP - 0x8000, G_SP + 0x40, true});   // stack, plus the caller's outgoing-argument area above the entry sp
    int SP = be.is64 ? 32 : 13;
    m.x[SP] = G_SP;
    // junk in every other register: a routine must not depend on what the caller left there
    for (int r = 0; r < (be.is64 ? 31 : 13); r++) m.x[r] = be.is64 ? 0xA5A5A5A500000000ull + (uint64_t) r * 0x0101010101ull : 0xA5A50000u + (uint32_t) r * 0x0101u;
    m.N = m.V = true; m.Z = false; m.C = true;
    m.x[0] = G_OUT; m.x[1] = ga;
    if (code == JV_PR_FP384_REDC || code == JV_PR_FP384_SQR) { m.x[2] = G_P; m.x[3] = be.is64 ? inv : (uint32_t) inv; }
    else if (code == JV_PR_FP384_MUL) { m.x[2] = gb; m.x[3] = G_P; if (be.is64) m.x[4] = inv; else { uint32_t iv = (uint32_t) inv; memcpy(&m.mem[G_SP], &iv, 4); } }
    else if (sb) m.x[2] = gb;
    uint64_t saved[32]; memcpy(saved, m.x, sizeof(saved));
    bool ok = m.run(std::string("embedded_pairing_core_arch_") + be.prefix + "_" + fn);
    be.insns += m.steps;
    if (ok) {
        // calling convention: callee-saved registers and sp restored
        if (m.x[SP] != G_SP) { ok = false; m.fault = strf("%s returns with sp moved by %lld bytes", fn, (long long) (m.x[SP] - G_SP)); }
        for (int r = be.is64 ? 19 : 4; ok && r <= (be.is64 ? 29 : 11); r++) if (m.x[r] != saved[r]) { ok = false; m.fault = strf("%s does not preserve callee-saved register %s%d", fn, be.is64 ? "x" : "r", r); }
    }
    if (!ok) { g_arm_last_fault = std::string(be.is64 ? "AArch64 " : "ARMv6-M ") + m.fault; return -77; }
    memcpy(out, &m.mem[G_OUT], so);
    if (code == JV_PR_BI384_ADD || code == JV_PR_BI384_SUB) return (int) (m.x[0] & 0xFF) != 0 ? 1 : 0;   // bool
    if (code == JV_PR_BI384_SHL1) return (be.is64 ? m.x[0] : (uint32_t) m.x[0]) != 0 ? 1 : 0;
    return 0;
}
static int a64_prim(int code, void* out, const void* a, const void* b) { return arm_prim(g_a64, code, out, a, b); }
static int v6m_prim(int code, void* out, const void* a, const void* b) { return arm_prim(g_v6m, code, out, a, b); }

std::string arm_add_pseudo_replicas(Replicas& reps, const std::string& repo) {
    std::string note;
    Rep* B = reps.by_label("B/portable64"); Rep* Cc = reps.by_label("C/portable32");
    struct Cfg { ArmBackend* be; bool is64; const char* prefix; const char* dir; const char* label; Rep* base; };
    Cfg cfgs[2] = {{&g_a64, true, "aarch64", "aarch64", "ARM64/interp", B}, {&g_v6m, false, "armv6_m", "armv6_m", "ARMv6M/interp", Cc}};
    for (auto& c : cfgs) {
        if (!c.base) { note += std::string(c.label) + ": base replica missing; "; continue; }
        std::string d = repo + "/src/core/arch/" + c.dir;
        c.be->is64 = c.is64; c.be->prefix = c.prefix; c.be->base_prim = c.base->jv_prim;
        if (!c.be->prog.load({d + "/bigint.s", d + "/multiply.s"}, c.is64)) { note += std::string(c.label) + " not available: " + c.be->prog.err + "; "; continue; }
        if (const char* e = getenv("JV_ARM_MOV_KEEPS_FLAGS")) c.be->m.mov_lowlow_sets_flags = atoi(e) == 0;
        Rep* r = new Rep(*c.base); r->handle = nullptr; r->name = c.prefix; r->label = c.label; r->want_dispatch = -1;
        r->jv_prim = c.is64 ? a64_prim : v6m_prim;
        reps.all.push_back(r);
        note += strf("%s: %zu instructions after macro expansion; ", c.label, c.be->prog.code.size());
    }
    return note;
}

} // namespace jv
