// engine.hpp - batches, worker pool, shrinking, replay, evidence.
#pragma once
#include "core.hpp"

namespace jv {

struct Batch {
    std::string scenario;
    std::map<std::string, int64_t> knobs;   // generator knobs (swarm ranges are drawn inside the generator)
    std::string mode = "single";            // single | crossrep | crossview
    std::vector<std::string> replicas;      // labels; single: rotate by run index; crossrep: all of them
    int view = -1;                          // -1 rotate, 0 C, 1 C++
    uint64_t runs = 0;
    std::string note;
};

struct CheckSpec {
    std::string prop, tier, level, technique_rule;
    std::vector<Batch> batches;
    std::vector<std::string> assumptions;
    std::string rule;                       // what makes a case distinct / non-trivial
    // Optional extra (non-batch) phases run in the parent before the batches; return violation text or "".
    std::vector<std::function<bool(struct CheckState&)>> static_phases;
};

struct CheckState {
    CheckSpec* spec = nullptr;
    Replicas* reps = nullptr;
    uint64_t seed = 1;
    std::map<std::string, uint64_t> counters;
    std::set<uint64_t> cases_all, cases_nontrivial;
    uint64_t evaluations = 0;
    std::vector<JsonP> samples;
    JsonP extra = Json::obj();
    bool violated = false; Violation v; Plan vplan; Batch vbatch; uint64_t vidx = 0; std::string vfinger; std::string vrep; int vview = 0;
};

bool build_check(const std::string& prop, const std::string& tier, CheckSpec& spec, std::string& err);
int run_check(const std::string& prop, const std::string& tier, uint64_t seed, int workers);
int run_replay(const std::string& path, bool verbose);
int run_selftest(uint64_t seed, int seeds_per_scenario);
int run_twice(const std::string& scenario, uint64_t seed, const std::string& rep, int view);
int run_one(const std::string& scenario, uint64_t seed, const std::string& rep, int view, bool verbose);
extern std::map<std::string, int64_t> g_cli_knobs;
std::string verif_root();
std::string flavour();
std::string replica_dir();

} // namespace jv
