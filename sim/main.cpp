// jsim - deterministic simulator for jedi-pairing. See /verif/DESIGN.md.
#include <stdio.h>
#include <stdlib.h>
#include <string.h>
#include <unistd.h>
#include <string>
#include "engine.hpp"

// Sanitizer hits must be classifiable: fixed exit code, no leak noise.
extern "C" __attribute__((used, visibility("default"))) const char* __asan_default_options() { return "exitcode=77:detect_leaks=0:abort_on_error=0:allocator_may_return_null=1:handle_segv=1"; }
extern "C" __attribute__((used, visibility("default"))) const char* __ubsan_default_options() { return "halt_on_error=1:exitcode=77:print_stacktrace=0"; }

static void usage() {
    fprintf(stderr,
        "usage: jsim check <PROP> <quick|thorough> [--seed N] [--workers N]\n"
        "       jsim replay <file> [-v]\n"
        "       jsim selftest [--seed N] [--n N]\n"
        "       jsim one <scenario> [--seed N] [--rep LABEL] [--view 0|1] [-v]\n"
        "env:   JV_BUILD_DIR = directory printed by bin/build_replicas.py; VERIF_SEED\n");
}

int main(int argc, char** argv) {
    setvbuf(stdout, nullptr, _IOLBF, 0);
    if (argc < 2) { usage(); return 2; }
    std::string cmd = argv[1];
    uint64_t seed = 1; const char* es = getenv("VERIF_SEED"); if (es && *es) seed = strtoull(es, nullptr, 10);
    int workers = 16, n = 40, view = 0; bool verbose = false; std::string rep = "A/bmi2-adx";
    std::vector<std::string> pos;
    for (int i = 2; i < argc; i++) {
        std::string a = argv[i];
        if (a == "--seed" && i + 1 < argc) seed = strtoull(argv[++i], nullptr, 10);
        else if (a == "--workers" && i + 1 < argc) workers = atoi(argv[++i]);
        else if (a == "--n" && i + 1 < argc) n = atoi(argv[++i]);
        else if (a == "--rep" && i + 1 < argc) rep = argv[++i];
        else if (a == "--view" && i + 1 < argc) view = atoi(argv[++i]);
        else if (a == "--knob" && i + 1 < argc) { std::string kv = argv[++i]; size_t e = kv.find('='); if (e != std::string::npos) jv::g_cli_knobs[kv.substr(0, e)] = strtoll(kv.c_str() + e + 1, nullptr, 10); }
        else if (a == "-v") verbose = true;
        else pos.push_back(a);
    }
    if (workers < 1) workers = 1;
    // leave through _exit: the C runtime's own exit-time destructor writes the replicas' .bss, which the write trap protects
    int rc = 2;
    if (cmd == "check" && pos.size() >= 2) rc = jv::run_check(pos[0], pos[1], seed, workers);
    else if (cmd == "replay" && pos.size() >= 1) rc = jv::run_replay(pos[0], verbose);
    else if (cmd == "selftest") rc = jv::run_selftest(seed, n);
    else if (cmd == "twice" && pos.size() >= 1) rc = jv::run_twice(pos[0], seed, rep, view);
    else if (cmd == "one" && pos.size() >= 1) rc = jv::run_one(pos[0], seed, rep, view, verbose);
    else usage();
    fflush(stdout); fflush(stderr); _exit(rc);
}
