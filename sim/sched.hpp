// sched.hpp - serialising seeded scheduler over real threads (S6).
#pragma once
#include <stdint.h>
#include <semaphore.h>
#include <pthread.h>
#include <vector>
#include <map>
#include <tuple>
#include <string>
#include <functional>
#include "util.hpp"

namespace jv {

// Exactly one task thread runs at any time. At every yield point (H1 hook in
// Fp::multiply/square, S1/S2 callbacks) the running task asks the scheduler
// whether to hand the CPU to another runnable task. Decisions come from the
// PRNG, or from an explicit switch list when replaying a minimised schedule.
struct Scheduler {
    struct Task { pthread_t th; sem_t sem; std::function<void()> body; bool finished = false; uint64_t yields = 0; Scheduler* s; int id; int last_step = -1000000; uint64_t step_yields = 0; };
    std::vector<Task*> tasks;
    int current = -1;
    Rng rng;
    uint32_t p_switch_log2 = 6;                 // switch with probability 2^-k at each yield point
    // Explicit schedules. A schedule is a list of tokens, each one decision:
    //   "S:<t>"        task t runs first
    //   "<T>@<s>.<k>:<t>"  at the k-th yield point inside step s of task T (step = the plan op the task is executing, counts are
    //                      task-local) the CPU goes to task t
    //   "F<T>:<t>"     when task T finishes, task t continues
    // Task-local (step, yield) positions do not depend on the interleaving (each task's control flow is its own), so removing one
    // decision leaves the others meaningful, and removing a plan op only renumbers the steps after it: that is what lets ddmin
    // shrink a schedule and the plan under it. Missing decisions default to "no switch" / "lowest-numbered unfinished task".
    bool use_list = false;
    std::map<std::tuple<int, int, uint64_t>, int> list_sw; std::map<int, int> list_fin; int list_start = 0;
    std::vector<std::string> taken;             // decisions of this run, as tokens
    void set_list(const std::vector<std::string>& tokens);
    uint64_t global_yield = 0, switches = 0, hook_yields = 0, cb_yields = 0;
    std::function<void(int, int)> on_switch;   // (from task, to task), called on the switching thread
    sem_t done_sem;
    int parking = 0;                            // per-thread flag lives in TLS (see sched_impl)

    void add(std::function<void()> body);
    void run(uint64_t seed);                    // returns when all tasks finished
    void yield_point(int kind);                 // kind 0: H1 hook, 1: callback
    int pick_other();
    void switch_to(int t);
    static void* tramp(void* p);
    ~Scheduler();
};
extern Scheduler* g_sched;
extern thread_local uint64_t tl_hook_calls;   // H1 hook invocations on this thread (a measure of work: one per field multiplication)
extern thread_local const int* tl_step_ptr;   // the step (plan op index) the calling task is executing; read at yield points
extern void (*g_yield_extra)(void);   // extra action at every H1 yield (dispatch flipping)

} // namespace jv
