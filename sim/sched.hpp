// sched.hpp - serialising seeded scheduler over real threads (S6).
#pragma once
#include <stdint.h>
#include <semaphore.h>
#include <pthread.h>
#include <vector>
#include <functional>
#include "util.hpp"

namespace jv {

// Exactly one task thread runs at any time. At every yield point (H1 hook in
// Fp::multiply/square, S1/S2 callbacks) the running task asks the scheduler
// whether to hand the CPU to another runnable task. Decisions come from the
// PRNG, or from an explicit switch list when replaying a minimised schedule.
struct Scheduler {
    struct Task { pthread_t th; sem_t sem; std::function<void()> body; bool finished = false; uint64_t yields = 0; Scheduler* s; int id; };
    std::vector<Task*> tasks;
    int current = -1;
    Rng rng;
    uint32_t p_switch_log2 = 6;                 // switch with probability 2^-k at each yield point
    bool use_list = false;                      // replay: switch exactly at the listed global yield numbers
    std::vector<std::pair<uint64_t, int>> list; // (global yield number, target task)
    size_t list_pos = 0;
    std::vector<std::pair<uint64_t, int>> taken; // recorded switches of this run
    uint64_t global_yield = 0, switches = 0, hook_yields = 0, cb_yields = 0;
    std::function<void(int, int)> on_switch;   // (from task, to task), called on the switching thread
    sem_t done_sem;
    int parking = 0;                            // per-thread flag lives in TLS (see sched_impl)

    void add(std::function<void()> body);
    void run(uint64_t seed);                    // returns when all tasks finished
    void yield_point(int kind);                 // kind 0: H1 hook, 1: callback
    int pick_other();
    void switch_to(int t);
    static void* tramp(void* p);
    ~Scheduler();
};
extern Scheduler* g_sched;
extern thread_local uint64_t tl_hook_calls;   // H1 hook invocations on this thread (a measure of work: one per field multiplication)
extern void (*g_yield_extra)(void);   // extra action at every H1 yield (dispatch flipping)

} // namespace jv
