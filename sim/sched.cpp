// sched.cpp - serialising seeded scheduler over real threads (S6).
#include "sched.hpp"
#include "trap.hpp"
#include <stdlib.h>

namespace jv {

Scheduler* g_sched = nullptr;
void (*g_yield_extra)(void) = nullptr;
thread_local uint64_t tl_hook_calls = 0;
thread_local const int* tl_step_ptr = nullptr;
static thread_local int tl_task = -1;

void sched_callback_yield() { if (g_sched && tl_task >= 0) g_sched->yield_point(1); }

void Scheduler::add(std::function<void()> body) {
    Task* t = new Task(); t->body = body; t->s = this; t->id = (int) tasks.size(); sem_init(&t->sem, 0, 0); tasks.push_back(t);
}

void* Scheduler::tramp(void* p) {
    Task* t = (Task*) p; Scheduler* s = t->s;
    sem_wait(&t->sem);
    tl_task = t->id;
    t->body();
    t->finished = true;
    tl_task = -1;
    int nxt = -1;
    // deterministic choice of who continues: lowest-numbered unfinished task after a PRNG draw
    std::vector<int> alive; for (auto x : s->tasks) if (!x->finished) alive.push_back(x->id);
    if (!alive.empty()) {
        if (s->use_list) { nxt = alive[0]; auto it = s->list_fin.find(t->id); if (it != s->list_fin.end()) for (int a : alive) if (a == it->second) nxt = a; }
        else nxt = alive[s->rng.below(alive.size())];
        s->taken.push_back(strf("F%d:%d", t->id, nxt));
    }
    if (nxt >= 0) { s->current = nxt; sem_post(&s->tasks[(size_t) nxt]->sem); }
    else sem_post(&s->done_sem);
    return nullptr;
}

void Scheduler::run(uint64_t seed) {
    rng.reseed(seed); sem_init(&done_sem, 0, 0);
    global_yield = switches = hook_yields = cb_yields = 0; taken.clear();
    if (tasks.empty()) return;
    pthread_attr_t at; pthread_attr_init(&at); pthread_attr_setstacksize(&at, 8u << 20);
    for (auto t : tasks) pthread_create(&t->th, &at, tramp, t);
    pthread_attr_destroy(&at);
    g_sched = this;
    current = use_list ? (list_start >= 0 && list_start < (int) tasks.size() ? list_start : 0) : (int) rng.below(tasks.size());
    taken.push_back(strf("S:%d", current));
    sem_post(&tasks[(size_t) current]->sem);
    sem_wait(&done_sem);
    g_sched = nullptr;
    for (auto t : tasks) pthread_join(t->th, nullptr);
}

int Scheduler::pick_other() {
    std::vector<int> c; for (auto t : tasks) if (!t->finished && t->id != current) c.push_back(t->id);
    if (c.empty()) return -1;
    return c[rng.below(c.size())];
}

void Scheduler::yield_point(int kind) {
    if (tl_task < 0 || tl_task != current) return;
    global_yield++; Task& me_t = *tasks[(size_t) current]; me_t.yields++;
    { int st = tl_step_ptr ? *tl_step_ptr : 0; if (st != me_t.last_step) { me_t.last_step = st; me_t.step_yields = 0; } me_t.step_yields++; }
    if (kind == 0) hook_yields++; else cb_yields++;
    int target = -1;
    if (use_list) {
        auto it = list_sw.find(std::make_tuple(current, me_t.last_step, me_t.step_yields));
        if (it != list_sw.end()) {
            target = it->second;
            if (target < 0 || target >= (int) tasks.size() || tasks[(size_t) target]->finished || target == current) target = -1;
        }
    } else {
        uint64_t r = rng.next();
        // callbacks (random source, hash function) are rare and sit at semantically interesting points (between filling a buffer and
        // handing it out, between draws): preempt there with probability 1/2; inside field multiplications with probability 2^-k
        if (kind == 1 ? (r & 1) == 0 : (r & ((1ULL << p_switch_log2) - 1)) == 0) target = pick_other();
    }
    if (target < 0) return;
    taken.push_back(strf("%d@%d.%llu:%d", current, me_t.last_step, (unsigned long long) me_t.step_yields, target)); switches++;
    if (on_switch) on_switch(current, target);
    int me = current; current = target;
    sem_post(&tasks[(size_t) target]->sem);
    sem_wait(&tasks[(size_t) me]->sem);
}

void Scheduler::set_list(const std::vector<std::string>& tokens) {
    use_list = true; list_sw.clear(); list_fin.clear(); list_start = 0;
    for (auto& t : tokens) {
        int a = 0, b = 0, st = 0; unsigned long long k = 0;
        if (sscanf(t.c_str(), "S:%d", &a) == 1) list_start = a;
        else if (sscanf(t.c_str(), "F%d:%d", &a, &b) == 2) list_fin[a] = b;
        else if (sscanf(t.c_str(), "%d@%d.%llu:%d", &a, &st, &k, &b) == 4) list_sw[std::make_tuple(a, st, (uint64_t) k)] = b;
    }
}

Scheduler::~Scheduler() { for (auto t : tasks) { sem_destroy(&t->sem); delete t; } }

} // namespace jv

// H1: the library's weak hook binds to this definition (the executable is linked -rdynamic).
extern "C" __attribute__((visibility("default"))) void embedded_pairing_verif_yield(void) {
    jv::tl_hook_calls++;
    if (!jv::g_yield_extra && !jv::g_sched) return;
    jv::OutOfLib out;
    if (jv::g_yield_extra) jv::g_yield_extra();
    if (jv::g_sched) jv::g_sched->yield_point(0);
}
