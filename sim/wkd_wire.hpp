// wkd_wire.hpp - M-wire for scheme objects: layouts, length formulas and their inverse, written
// down independently of marshal.cpp; element-level Byzantine substitution; marshal helper with
// over-write detection.
#pragma once
#include "core.hpp"
#include "wire.hpp"
#include "wkd_model.hpp"

namespace jv {

// canonical integer of a raw Montgomery-form Fq (48 LE bytes)
static inline Bn fq_canon(const uint8_t* raw) {
    static const Bn Rinv = Bn::powmod(Bn::mod(Bn(1).shl(384), K().q), Bn::sub(K().q, Bn(2)), K().q);
    return Bn::mulmod(Bn::from_le(raw, 48), Rinv, K().q);
}
// GT on the wire: the 12 base-field coefficients in reverse memory order, each 48-byte big-endian
static inline std::vector<uint8_t> model_gt_bytes(const GTv& v) {
    std::vector<uint8_t> out(576);
    for (int i = 0; i < 12; i++) fq_canon(v.b + 48 * (11 - i)).to_be(&out[(size_t) i * 48], 48);
    return out;
}
static inline std::vector<uint8_t> model_g1_bytes(W& w, const G1v& p, bool comp) { Buf a(w.R.sz(JV_SZ_G1A)); w.R.jv_g1affine_from_projective(1, a, p.b); return model_encode(mpoint_of_affine(w.R, 1, a), comp); }
static inline std::vector<uint8_t> model_g2_bytes(W& w, const G2v& p, bool comp) { Buf a(w.R.sz(JV_SZ_G2A)); w.R.jv_g2affine_from_projective(1, a, p.b); return model_encode(mpoint_of_affine(w.R, 2, a), comp); }

struct ElemPos { size_t off; int g; const char* name; };    // g: 1, 2; 0 = GT bytes (no validating form)
struct WireLayout { std::vector<ElemPos> elems; std::vector<size_t> idx_off; size_t total = 0; };

enum { WK_PARAMS = JV_OK_WK_PARAMS, WK_MSK = JV_OK_WK_MSK, WK_SK = JV_OK_WK_SK, WK_CT = JV_OK_WK_CT, WK_SIG = JV_OK_WK_SIG };

static inline WireLayout wk_layout(int ok, bool comp, bool sig, int n) {
    WireLayout L; size_t e1 = enc_size(1, comp), e2 = enc_size(2, comp), o = 0;
    auto add = [&](int g, const char* nm) { L.elems.push_back({o, g, nm}); o += g == 1 ? e1 : g == 2 ? e2 : 576; };
    switch (ok) {
    case WK_PARAMS: o = 1; add(2, "g"); add(2, "g1"); add(1, "g2"); add(1, "g3"); if (!comp) add(0, "pairing"); if (sig) add(1, "hsig"); for (int i = 0; i < n; i++) add(1, "h[i]"); break;
    case WK_MSK: add(1, "g2alpha"); break;
    case WK_SK: o = 1; add(1, "a0"); add(2, "a1"); if (sig) add(1, "bsig"); for (int i = 0; i < n; i++) { add(1, "b[i].hexp"); L.idx_off.push_back(o); o += 4; } break;
    case WK_CT: add(0, "a"); add(2, "b"); add(1, "c"); break;
    case WK_SIG: add(1, "a0"); add(2, "a1"); break;
    }
    L.total = o; return L;
}
// inverse of the length formula: slot count for a buffer of length len whose first byte is b0; -1 if none
static inline int wk_model_unmarshalled_length(int ok, bool comp, uint8_t b0, size_t len) {
    size_t base = wk_layout(ok, comp, b0 != 0, 0).total;
    if (len < base) return -1;
    size_t per = ok == WK_PARAMS ? enc_size(1, comp) : enc_size(1, comp) + 4;
    return (len - base) % per == 0 ? (int) ((len - base) / per) : -1;
}

// marshal through the API into a buffer of exactly the advertised length; a write beyond it is a violation
static inline std::vector<uint8_t> wk_marshal_env(RunEnv& env, int view, int ok, const void* obj, bool comp) {
    Rep& R = *env.rep; env.lib_calls += 2;
    size_t n = R.jv_wk_get_marshalled_length(view, ok, obj, comp);
    if (n == 0 || n > (1u << 20)) env.fail("C15", "length:get_marshalled_length", strf("get_marshalled_length returned %zu", n));
    std::vector<uint8_t> out;
    for (int pass = 0; pass < 2; pass++) {
        uint8_t fill = pass ? 0x5A : 0xA5; size_t pad = (R.info.sanitized && pass == (env.focus == "C17" ? 0 : 1)) ? 0 : 256;   // one pass with canary bytes after the reported length (C15 judges), one under ASan with the block ending at the reported length (C17 judges; first when C17 is the property being checked)
        static const size_t offs[] = {0, 1, 8, 0, 5, 0, 2, 12};
        MBytes b(n + pad, offs[(n + (size_t) ok + (size_t) pass) % 8], fill);
        R.jv_wk_marshal(view, ok, b.p, obj, comp);
        for (size_t i = n; i < n + pad; i++) if (b.p[i] != fill) env.fail("C15", "marshal:writes-exactly-reported-length", strf("marshal wrote byte %zu, get_marshalled_length reported %zu", i, n));
        if (pass == 0) out.assign(b.p, b.p + n);
        else for (size_t i = 0; i < n; i++) if (out[i] != b.p[i]) env.fail("C15", "marshal:writes-every-byte", strf("marshal left byte %zu of %zu unwritten (it keeps the buffer's previous content)", i, n));
    }
    return out;
}
static inline std::vector<uint8_t> wk_marshal(Rep& R, int view, int ok, const void* obj, bool comp) {
    size_t n = R.jv_wk_get_marshalled_length(view, ok, obj, comp); Bytes b(n, 0);
    R.jv_wk_marshal(view, ok, b.p, obj, comp); return std::vector<uint8_t>(b.p, b.p + n);
}

// ---------------------------------------------------------------- Byzantine element substitution
// Replace the encoding at [off, off+size) by an invalid (or different valid) encoding of the given kind.
// Returns false when the kind does not apply (e.g. x_without_y on an uncompressed element).
static inline bool substitute_element(Rep& R, std::vector<uint8_t>& buf, size_t off, int g, bool comp, const std::string& kind, uint64_t seed) {
    size_t n = enc_size(g, comp); if (off + n > buf.size()) return false;
    std::vector<uint8_t> e(buf.begin() + (long) off, buf.begin() + (long) (off + n)); std::vector<uint8_t> orig = e;
    Rng r(seed); size_t ncoord = (g == 1 ? 1 : 2) * (comp ? 1 : 2);
    auto rand_curve_point = [&](bool want_no_y, std::vector<uint8_t>& x_be, Buf& aff) -> bool {
        aff.alloc(R.sz(g == 1 ? JV_SZ_G1A : JV_SZ_G2A));
        for (int t = 0; t < 200; t++) {
            uint8_t xle[96]; r.fill(xle, 96); xle[47] &= 0x0F; xle[95] &= 0x0F;
            int ok = g == 1 ? R.jv_g1a_from_x(aff, xle, (int) (r.next() & 1)) : R.jv_g2a_from_x(aff, xle, (int) (r.next() & 1));
            if ((ok != 0) != want_no_y) {
                x_be.assign(g == 1 ? 48 : 96, 0);
                if (g == 1) for (int i = 0; i < 48; i++) x_be[(size_t) i] = xle[47 - i];
                else for (int i = 0; i < 48; i++) { x_be[(size_t) i] = xle[95 - i]; x_be[48 + (size_t) i] = xle[47 - i]; }
                return true;
            }
        }
        return false;
    };
    if (kind == "plusq") { bool ok = false; for (size_t i = 0; i < ncoord && !ok; i++) ok = add_q_at(e, ((seed + i) % ncoord) * 48); if (!ok) return false; }
    else if (kind == "cflag") { if (ncoord < 2) return false; e[(1 + seed % (ncoord - 1)) * 48] |= 0x80; }
    else if (kind == "offcurve") { if (comp) return false; e[n - 1] ^= 1; }
    else if (kind == "isocurve") { if (comp || !iso_scale_uncompressed(e, 2 + seed % 5)) return false; }
    else if (kind == "wrongsub") { std::vector<uint8_t> xb; Buf a; if (!rand_curve_point(false, xb, a)) return false;
        if (seed & 1) cofactor_part(R, g, a);   // every other time the point lies entirely in the cofactor part: T = [r]Q (its order divides the cofactor)
        else if (g == 1 && (seed & 2)) {
            // ... or it is the ORIGINAL element plus the point (0, 2) of order 3: off the subgroup by the smallest possible amount (a test that folds several
            // elements into one combination before multiplying by r loses it whenever the element's weight is a multiple of 3)
            Buf e0(R.sz(JV_SZ_G1A)); if (R.jv_g1_unmarshal(1, e0, orig.data(), comp, 0)) { uint8_t t3[96] = {0}; t3[95] = 2; Buf t(R.sz(JV_SZ_G1A)); R.jv_g1a_set_xy(t, t3, 0); G1v p, sum; R.jv_g1_from_affine(1, p.b, e0); R.jv_g1_add_mixed(1, sum.b, p.b, t); R.jv_g1affine_from_projective(1, a, sum.b); }
        }
        e = model_encode(mpoint_of_affine(R, g, a), comp); }
    else if (kind == "xnoy") { if (!comp) return false; std::vector<uint8_t> xb; Buf a; if (!rand_curve_point(true, xb, a)) return false; e = xb; e[0] |= FL_COMPRESSED; }
    else if (kind == "badinf") { std::fill(e.begin(), e.end(), 0); e[0] = FL_INFINITY | (comp ? FL_COMPRESSED : 0); int v = (int) (seed % 7); if (v == 6) { if (n < 96) return false; e[48 * (1 + (seed / 7) % (n / 48 - 1))] |= (uint8_t) (0x20u << ((seed / 49) % 3)); } /* payload = one of the three top bits of a LATER coordinate's first byte */ else if (v == 5) e[0] = (uint8_t) (FL_INFINITY | (comp ? 0 : FL_COMPRESSED)); /* the identity, all payload bits zero, announced in the other form */ else if (v == 0) e[n - 1] = 1; else if (v == 1) e[0] |= FL_GREATER; else if (v == 2) e[n / 2] = 0x10; else { uint8_t qb[48]; K().q.to_be(qb, 48); size_t ns = n / 48; for (size_t sl = (v == 3 ? ns - 1 : 0); sl < ns; sl++) for (size_t i = 0; i < 48; i++) e[sl * 48 + i] |= qb[i]; } }
    else if (kind == "inftail") { e[0] |= FL_INFINITY; }
    else if (kind == "zero") { std::fill(e.begin(), e.end(), 0); if (false) {} }
    else if (kind == "ff") std::fill(e.begin(), e.end(), 0xFF);
    else if (kind == "wrongform") { e[0] ^= FL_COMPRESSED; }
    else if (kind == "greater") { if (comp) return false; e[0] |= FL_GREATER; }
    else if (kind == "infinity") { std::fill(e.begin(), e.end(), 0); e[0] = FL_INFINITY | (comp ? FL_COMPRESSED : 0); }     // the canonical identity: a valid element
    else if (kind == "other") {
        uint8_t k[32]; r.fill(k, 32); Buf a(R.sz(g == 1 ? JV_SZ_G1A : JV_SZ_G2A));
        if (g == 1) { Buf gen(R.sz(JV_SZ_G1A)); R.jv_const_get(JV_EK_G1A, 1, gen); G1v p; R.jv_g1_multiply_affine(1, p.b, gen, k); R.jv_g1affine_from_projective(1, a, p.b); }
        else { Buf gen(R.sz(JV_SZ_G2A)); R.jv_const_get(JV_EK_G2A, 1, gen); G2v p; R.jv_g2_multiply_affine(1, p.b, gen, k); R.jv_g2affine_from_projective(1, a, p.b); }
        e = model_encode(mpoint_of_affine(R, g, a), comp);
    }
    else return false;
    if (e == orig) return false;
    std::copy(e.begin(), e.end(), buf.begin() + (long) off);
    return true;
}
static inline const std::vector<std::string>& invalid_kinds() { static const std::vector<std::string> v = {"plusq", "cflag", "offcurve", "isocurve", "wrongsub", "xnoy", "badinf", "inftail", "zero", "ff", "wrongform", "greater"}; return v; }

} // namespace jv
