// stream.hpp - S1 (caller's random source) and S2 (caller's hash function) as simulator-owned seams.
#pragma once
#include <deque>
#include <vector>
#include <string>
#include "util.hpp"
#include "bn.hpp"

namespace jv {

struct StreamOverrun { size_t requests; };

// thrown by the stubs when the plan cancels a call from inside a callback (a source that fails, a KDF that refuses a length): the caller of the
// library sees the exception arrive - through the C entry points exactly as through the C++ ones
struct CallbackCancelled { int where; };

struct StreamReq { std::vector<uint8_t> bytes; bool scripted; };

struct Stream {
    // which memory the library hands to the random source: requests whose buffer lies inside the caller's own output object are counted (a wrapper that
    // samples into a temporary and copies behaves differently towards a source that looks at its buffer or its address)
    const uint8_t* watch_lo = nullptr; const uint8_t* watch_hi = nullptr; uint64_t watch_hits = 0;
    Rng rng;
    std::deque<std::vector<uint8_t>> script[4];   // by size class: 0:1 byte, 1:8, 2:32, 3:48
    std::vector<StreamReq> reqs;                  // requests of the current library call
    size_t limit = 100000;                        // liveness bound for the current call
    uint64_t total_requests = 0, total_bytes = 0, scripted_served = 0;
    Sha256 transcript;                            // everything ever served (for cross-replica identity)
    static int cls(size_t n) { return n == 1 ? 0 : n == 8 ? 1 : n == 32 ? 2 : n == 48 ? 3 : -1; }
    void reseed(uint64_t s) { rng.reseed(s); for (auto& q : script) q.clear(); }
    void begin_call(size_t fair_budget = 256) {
        reqs.clear();
        size_t scripted = 0; for (auto& q : script) scripted += q.size();
        limit = scripted + fair_budget;
    }
    void push(size_t size, const std::vector<uint8_t>& b) { int c = cls(size); if (c >= 0) script[c].push_back(b); }
    long cancel_at = -1;                          // request index of the current call at which the source fails (throws); -1 = never
    void serve(void* buf, size_t n) {
        if (reqs.size() >= limit) throw StreamOverrun{reqs.size()};
        if (cancel_at >= 0 && (long) reqs.size() == cancel_at) { cancel_at = -1; throw CallbackCancelled{0}; }
        StreamReq r; r.bytes.resize(n); r.scripted = false;
        int c = cls(n);
        if (c >= 0 && !script[c].empty()) {
            std::vector<uint8_t>& s = script[c].front();
            memcpy(r.bytes.data(), s.data(), n < s.size() ? n : s.size());
            script[c].pop_front(); r.scripted = true; scripted_served++;
        } else {
            rng.fill(r.bytes.data(), n);
        }
        memcpy(buf, r.bytes.data(), n);
        total_requests++; total_bytes += n;
        uint32_t n32 = (uint32_t) n; transcript.update(&n32, 4); transcript.update(r.bytes.data(), n);
        reqs.push_back(std::move(r));
    }
    size_t leftover_script() const { size_t s = 0; for (auto& q : script) s += q.size(); return s; }
    void clear_script() { for (auto& q : script) q.clear(); }
};

struct HashCall { size_t outlen; std::vector<uint8_t> in; };
struct HashStub {
    bool cancel_next = false;   // the next hash request throws
    std::vector<HashCall> calls; bool dry = false;   // dry: record the request, write only the first 64 bytes (key lengths of 2^32 bytes and more)
    void fill(void* out, size_t outlen, const void* in, size_t inlen) {
        HashCall c; c.outlen = outlen; c.in.assign((const uint8_t*) in, (const uint8_t*) in + inlen);
        calls.push_back(c);
        if (cancel_next) { cancel_next = false; throw CallbackCancelled{1}; }
        if (dry && outlen > 64) outlen = 64;
        uint8_t* o = (uint8_t*) out; uint32_t ctr = 0;
        while (outlen) {
            Sha256 s; s.update(&ctr, 4); s.update(in, inlen); uint8_t d[32]; s.final(d);
            size_t k = outlen < 32 ? outlen : 32; memcpy(o, d, k); o += k; outlen -= k; ctr++;
        }
    }
};

// The callbacks handed to the library have no context argument: they find the
// current stream / hash stub through these thread-local pointers.
extern thread_local Stream* tl_stream;
extern thread_local HashStub* tl_hash;
extern "C" void jv_rand_cb(void* buf, size_t n);
extern "C" void jv_hash_cb(void* out, size_t outlen, const void* in, size_t inlen);
void sched_callback_yield();   // defined in sched.cpp (no-op when no scheduler is active)

// ------------------------------------------------------------------ M-sample
// Re-derive from the recorded request/answer sequence what each sampler must return.
struct SampleCursor {
    const std::vector<StreamReq>& reqs; size_t pos = 0; std::string err; uint64_t rejections = 0;
    explicit SampleCursor(const std::vector<StreamReq>& r) : reqs(r) {}
    const std::vector<uint8_t>* take(size_t n) {
        if (pos >= reqs.size()) { if (err.empty()) err = strf("model needs request #%zu of %zu bytes but the call made only %zu requests", pos, n, reqs.size()); return nullptr; }
        if (reqs[pos].bytes.size() != n) { if (err.empty()) err = strf("request #%zu has size %zu, model expects %zu", pos, reqs[pos].bytes.size(), n); return nullptr; }
        return &reqs[pos++].bytes;
    }
    bool done() const { return pos == reqs.size(); }
};

static inline bool model_fr_random(SampleCursor& c, Bn& out) {
    for (;;) {
        auto b = c.take(32); if (!b) return false;
        uint8_t t[32]; memcpy(t, b->data(), 32); t[31] &= 0x7F;
        Bn v = Bn::from_le(t, 32);
        if (v < K().r) { out = v; return true; }
        c.rejections++;
    }
}
static inline bool model_fq_random(SampleCursor& c, Bn& out) {
    for (;;) {
        auto b = c.take(48); if (!b) return false;
        uint8_t t[48]; memcpy(t, b->data(), 48); t[47] &= 0x1F;
        Bn v = Bn::from_le(t, 48);
        if (v < K().q) { out = v; return true; }
        c.rejections++;
    }
}
static inline bool model_powers_random(SampleCursor& c, Bn& y, uint64_t digits[4]) {
    for (;;) {
        for (int i = 0; i < 4; i++) {
            for (;;) {
                auto b = c.take(8); if (!b) return false;
                Bn v = Bn::from_le(b->data(), 8);
                if (v < K().absx) { digits[i] = v.low64(); break; }
                c.rejections++;
            }
        }
        Bn t = Bn(digits[0]);
        t = Bn::add(t, Bn::mul(Bn(digits[1]), K().absx));
        t = Bn::add(t, Bn::mul(Bn(digits[2]), K().x2));
        t = Bn::add(t, Bn::mul(Bn(digits[3]), K().x3));
        if (t < K().r) { y = t; return true; }
        c.rejections++;
    }
}

} // namespace jv
