// static.cpp - the parts of C19 and C20 that are static facts, evaluated at run time so that a
// mismatch is a reported VIOLATION rather than a failed build. Not simulation; said so in DESIGN.md.
#include <stdio.h>
#include <set>
#include <regex>
#include "engine.hpp"

namespace jv {

static std::string sh(const std::string& cmd, int* rc = nullptr) {
    std::string out; FILE* f = popen(cmd.c_str(), "r"); if (!f) { if (rc) *rc = -1; return out; }
    char buf[4096]; size_t n; while ((n = fread(buf, 1, sizeof(buf), f)) > 0) out.append(buf, n);
    int r = pclose(f); if (rc) *rc = r; return out;
}
static std::vector<std::string> lines(const std::string& s) { std::vector<std::string> v; std::string cur; for (char c : s) { if (c == '\n') { if (!cur.empty()) v.push_back(cur); cur.clear(); } else cur += c; } if (!cur.empty()) v.push_back(cur); return v; }

// C19 (1): layout and constant tables of every replica
static bool abi_phase(CheckState& st) {
    auto rows_json = Json::arr(); uint64_t nrows = 0, nconst = 0;
    for (auto rp : st.reps->all) {
        if (!rp->handle) continue;   // interpreted pseudo-replicas have no build of their own
        const jv_abi_row* rows; size_t n = rp->jv_abi_table(&rows);
        for (size_t i = 0; i < n; i++) {
            const jv_abi_row& r = rows[i]; nrows++;
            st.cases_all.insert(hash64(strf("abi %s %s.%s", rp->label.c_str(), r.type, r.member))); st.cases_nontrivial.insert(hash64(strf("abi %s %s.%s", rp->label.c_str(), r.type, r.member)));
            if (r.c_size != r.cxx_size || r.c_align != r.cxx_align || r.c_off != r.cxx_off) {
                st.violated = true; st.v = {"C19", "abi-table", strf("replica %s: C struct %s%s%s: size %zu vs C++ %zu, %s %zu vs %zu, offset %zu vs %zu", rp->label.c_str(), r.type, r.member[0] ? "." : "", r.member, r.c_size, r.cxx_size, r.c_align >= 100 ? "kind of the declared type (101 bool, 102 other integer, 103 pointer, 104 other)" : "align", r.c_align, r.cxx_align, r.c_off, r.cxx_off), 0};
                return false;
            }
        }
        const jv_const_row* crow; size_t nc = rp->jv_const_table(&crow);
        for (size_t i = 0; i < nc; i++) {
            nconst++;
            st.cases_all.insert(hash64(strf("const %s %s", rp->label.c_str(), crow[i].name))); st.cases_nontrivial.insert(hash64(strf("const %s %s", rp->label.c_str(), crow[i].name)));
            if (!crow[i].c_ptr || memcmp(crow[i].c_ptr, crow[i].cxx_ptr, crow[i].len) != 0) {
                st.violated = true; st.v = {"C19", "exported-constant", strf("replica %s: exported constant %s differs from the C++ value", rp->label.c_str(), crow[i].name), 0};
                return false;
            }
        }
        // independent cross-check of a few constants against values written down in the simulator
        Frv ord; rp->jv_const_get(JV_EK_FR, 0, ord.b);
        if (Bn::from_le(ord.b, 32) != K().r) { st.violated = true; st.v = {"C19", "exported-constant", "group order constant is not r", 0}; return false; }
        for (int ek : {JV_EK_G1A, JV_EK_G2A}) if (rp->jv_point_marshalled_size(0, ek, 1) != (ek == JV_EK_G1A ? 48u : 96u) || rp->jv_point_marshalled_size(0, ek, 0) != (ek == JV_EK_G1A ? 96u : 192u)) { st.violated = true; st.v = {"C19", "exported-constant", "marshalled size constants differ from the format", 0}; return false; }
        if (rp->jv_point_marshalled_size(0, JV_EK_GT, 0) != 576) { st.violated = true; st.v = {"C19", "exported-constant", "gt_marshalled_size != 576", 0}; return false; }
        // generator_pairing really is e(g1 generator, g2 generator); gt_zero is the multiplicative identity
        Buf a(rp->sz(JV_SZ_G1A)), b(rp->sz(JV_SZ_G2A)); GTv e, gp, one, prod; rp->jv_const_get(JV_EK_G1A, 1, a); rp->jv_const_get(JV_EK_G2A, 1, b);
        rp->jv_pairing(0, e.b, a, b); rp->jv_const_get(JV_EK_GT, 1, gp.b); rp->jv_const_get(JV_EK_GT, 0, one.b); rp->jv_gt_add(0, prod.b, e.b, one.b);
        if (memcmp(e.b, gp.b, 576) != 0 || memcmp(prod.b, e.b, 576) != 0) { st.violated = true; st.v = {"C19", "exported-constant", strf("replica %s: gt_generator != e(g1 generator, g2 generator) or gt_zero is not neutral", rp->label.c_str()), 0}; return false; }
    }
    st.evaluations += nrows + nconst;
    st.counters["abi_rows_checked"] = nrows; st.counters["exported_constants_checked"] = nconst;
    // which extern "C" symbols of the library does the adapter exercise?
    std::string adapter_src, tmp; for (const char* f : {"adapter.cpp", "adapter_bls.inc", "adapter_wk.inc", "adapter_lq.inc", "adapter_abi.inc"}) if (read_file(verif_root() + "/adapter/" + f, tmp)) adapter_src += tmp;
    auto unc = Json::arr(); uint64_t nsym = 0;
    for (auto& l : lines(sh("nm -D --defined-only " + st.reps->all[0]->path() + " 2>/dev/null"))) {
        size_t p = l.rfind(' '); if (p == std::string::npos) continue; std::string sym = l.substr(p + 1); char type = l[p - 1];
        if (sym.compare(0, 17, "embedded_pairing_") != 0 || sym.find("core_arch") != std::string::npos || sym == "embedded_pairing_verif_yield") continue;
        if (type != 'T' && type != 'D' && type != 'R' && type != 'B') continue;
        nsym++;
        // the G1/G2 families are generated by one macro in adapter_bls.inc (embedded_pairing_bls12_381_##g##_add ...)
        std::string pasted = sym; for (const char* gname : {"_g1", "_g2"}) { size_t q = pasted.find(gname); if (q != std::string::npos) { pasted.replace(q, 3, "_##g##"); break; } }
        if (adapter_src.find(sym) == std::string::npos && adapter_src.find(pasted) == std::string::npos) unc->push(Json::str(sym));
    }
    st.extra->seti("c_api_symbols_exported", (int64_t) nsym); st.extra->set("c_api_symbols_not_exercised_by_the_adapter", unc);
    return true;
}

// C20 (4): link-surface and writable-storage audit of the static library built the shipped way (guard off)
static bool audit_phase(CheckState& st) {
    std::string scratch = sh("mktemp -d /tmp/jv-audit.XXXXXX"); while (!scratch.empty() && scratch.back() == '\n') scratch.pop_back();
    if (scratch.empty()) { st.violated = true; st.v = {"HARNESS", "audit", "mktemp failed", 0}; return false; }
    struct Cfg { const char* name; const char* cxx; const char* extra; } cfgs[] = {
        {"clang-asm", "clang++", ""}, {"clang-portable64", "clang++", "-DDISABLE_ASM"}, {"clang-portable32", "clang++", "-DDISABLE_ASM -U__SIZEOF_INT128__"}, {"gcc-asm", "g++", ""}, {"gcc-portable64", "g++", "-DDISABLE_ASM"},
        {"clang-embedded-flags", "clang++", "-DDISABLE_ASM -U__SIZEOF_INT128__ -Os -fno-builtin -fshort-enums -funsigned-char -fno-threadsafe-statics"}, {"gcc-embedded-flags", "g++", "-DDISABLE_ASM -U__SIZEOF_INT128__ -Os -fno-builtin -fshort-enums -funsigned-char -fno-threadsafe-statics"},
        {"clang-debug", "clang++", "-DDISABLE_ASM -O0"}};   // the flag set of the Makefile's Cortex-M0+ section (minus the target selection), and an unoptimised build
    static const std::regex allowed_undef("^(memcpy|memmove|memset|memcmp|bcmp|__(u)?(div|mod|divmod|mul)[dt]i[34]|__(ashl|ashr|lshr)[dt]i3|_GLOBAL_OFFSET_TABLE_|__stack_chk_fail)$");
    static const std::regex allowed_writable("^(embedded_pairing::core::runtime_(fpbase_384_montgomery_reduce|bigint_768_multiply|bigint_768_square)|embedded_pairing::core::cpu_supports_bmi2_adx|embedded_pairing::core::Fp<.*>::one|embedded_pairing::(wkdibe|lqibe)::group_order|embedded_pairing::bls12_381::g1_endomorphism_lambda|embedded_pairing_bls12_381_(group_order|g1_zero|g1affine_zero|g1affine_generator|g2_zero|g2affine_zero|g2affine_generator|gt_zero|gt_generator))$");
    auto report = Json::arr(); bool ok = true;
    for (auto& c : cfgs) {
        std::string d = scratch + "/" + c.name;
        const char* repo_env = getenv("JV_REPO"); std::string repo = repo_env && *repo_env ? repo_env : "/repo";
        std::string cmd = "mkdir -p " + d + " && cd " + repo + " && for f in src/core/*.cpp src/bls12_381/*.cpp src/wkdibe/*.cpp src/lqibe/*.cpp src/core/arch/x86_64/*.cpp; do [ -f \"$f\" ] || continue; echo \"$f\"; done | xargs -P 16 -I{} sh -c '" + std::string(c.cxx) +
            " -c -std=c++17 -I./include -Ofast " + (std::string(c.cxx) == "clang++" ? "-fno-vectorize " : "") + c.extra + " {} -o " + d + "/$(echo {} | tr / _).o' 2>&1 && for s in src/core/arch/x86_64/*.s; do as $s -o " + d + "/$(basename $s).o; done && ar rcs " + d + "/pairing.a " + d + "/*.o";
        int rc = 0; std::string out = sh(cmd + " 2>&1", &rc);
        if (rc != 0) { st.violated = true; st.v = {"C20", "audit:library-builds", std::string("configuration ") + c.name + " of the library does not build: " + out.substr(0, 400), 0}; ok = false; break; }
        std::set<std::string> defined, undef;
        for (auto& l : lines(sh("nm " + d + "/pairing.a 2>/dev/null"))) {
            if (l.size() < 3 || l.back() == ':') continue; size_t p = l.rfind(' '); if (p == std::string::npos || p < 1) continue;
            char t = l[p - 1]; std::string sym = l.substr(p + 1);
            if (t == 'U') undef.insert(sym); else if (t != 'w' && t != 'v') defined.insert(sym); else if (l[0] != ' ') defined.insert(sym); else undef.insert(sym);   // weak undefined reference: legal to leave unresolved, still an import (and a call when it resolves)
        }
        auto cj = Json::obj(); cj->set("configuration", c.name); auto ua = Json::arr();
        for (auto& u : undef) if (!defined.count(u)) { ua->push(Json::str(u)); st.evaluations++; st.cases_all.insert(hash64(std::string(c.name) + u)); st.cases_nontrivial.insert(hash64(std::string(c.name) + u));
            if (!std::regex_match(u, allowed_undef)) { st.violated = true; st.v = {"C20", "audit:undefined-symbols", strf("the static library built as %s references external symbol %s (only memory primitives and compiler arithmetic helpers are allowed)", c.name, u.c_str()), 0}; ok = false; } }
        cj->set("archive_level_undefined", ua);
        auto wa = Json::arr();
        for (auto& l : lines(sh("nm -C " + d + "/pairing.a 2>/dev/null"))) {
            if (l.size() < 19 || l.back() == ':') continue; char t = l[17]; if (t != 'B' && t != 'b' && t != 'D' && t != 'd' && t != 'C') continue;
            std::string sym = l.substr(19); wa->push(Json::str(sym)); st.evaluations++;
            // Informational only: writable storage that is never written after load (non-const constants, load-time initialised
            // constants) does not break the property; actual writes after load are decided by the write trap of scenario conc.
            if (!std::regex_match(sym, allowed_writable)) st.counters["writable_symbols_outside_reference_list"]++;
        }
        cj->set("writable_symbols", wa);
        // code registered to run at exit / unload (a destructor function, a static object with a destructor): the library would write its state
        // again after "load time", while other threads may still be inside it
        { std::string fin = sh("readelf -S -W " + d + "/*.o 2>/dev/null | grep -E '\\.(fini_array|dtors)' | head -3");
          if (!fin.empty()) { st.violated = true; st.v = {"C20", "audit:exit-time-code", std::string("objects built as ") + c.name + " register code to run at exit or unload (.fini_array / .dtors): " + fin.substr(0, 120), 0}; ok = false; } }
        std::string tls = sh("readelf -S -W " + d + "/*.o 2>/dev/null | grep -E '\\.(tbss|tdata)' | head -3");
        if (!tls.empty()) { st.violated = true; st.v = {"C20", "audit:thread-local-storage", std::string("objects built as ") + c.name + " contain TLS sections", 0}; ok = false; }
        report->push(cj);
        if (!ok) break;
    }
    sh("rm -rf " + scratch);
    st.extra->set("link_surface_audit", report);
    return ok;
}

// C17 (thorough): uninitialised-value use and invalid accesses the sanitizers do not see (MSan is unusable with the
// uninstrumented libstdc++): valgrind memcheck over a few hundred seeded runs of the plain simulator on the portable replica.
static bool valgrind_phase(CheckState& st) {
    std::string root = verif_root(), tmp = root + "/build/tmp"; sh("mkdir -p " + tmp);
    const char* scen[] = {"wkd", "lq", "sample", "enc", "pairs", "group"}; int per = 40;
    std::string list;
    for (auto sc : scen) for (int i = 0; i < per; i++) list += strf("%s %llu %s\n", sc, (unsigned long long) mix3(st.seed, strhash(sc), (uint64_t) i), i % 3 == 2 ? "C/portable32" : "B/portable64");
    write_file(tmp + "/vg.list", list);
    // the plain simulator binary and the plain replicas (both exist: setup builds both flavours)
    std::string plain_dir = replica_dir(); size_t p = plain_dir.rfind("/san"); if (p != std::string::npos) plain_dir = plain_dir.substr(0, p);
    std::string cmd = "cd " + root + " && python3 bin/build_replicas.py --flavour plain --repo \"${JV_REPO:-/repo}\" >/dev/null 2>&1; make -s build/jsim >/dev/null 2>&1; "
        "export JV_BUILD_DIR=$(python3 bin/build_replicas.py --flavour plain --repo \"${JV_REPO:-/repo}\" 2>/dev/null | tail -1); "
        "cat " + tmp + "/vg.list | xargs -P 16 -L 1 sh -c 'valgrind -q --error-exitcode=9 --track-origins=no build/jsim one $0 --seed $1 --rep $2 > " + tmp + "/vg-$0-$1.out 2>&1; echo \"$0 $1 $?\"'";
    int bad = 0, n = 0; std::string first;
    for (auto& l : lines(sh(cmd))) {
        std::vector<std::string> t; { std::string cur; for (char c : l) { if (c == ' ') { t.push_back(cur); cur.clear(); } else cur += c; } t.push_back(cur); }
        if (t.size() != 3) continue; n++;
        if (t[2] == "9") { bad++; if (first.empty()) { std::string o; read_file(tmp + "/vg-" + t[0] + "-" + t[1] + ".out", o); size_t q = o.find("=="); first = t[0] + " seed " + t[1] + ": " + o.substr(q == std::string::npos ? 0 : q, 900); } }
        else if (t[2] != "0" && t[2] != "1") { st.counters["valgrind_runs_with_other_exit_code"]++; }
    }
    sh("rm -f " + tmp + "/vg-*.out " + tmp + "/vg.list");
    st.evaluations += (uint64_t) n; st.counters["valgrind_memcheck_runs"] = (uint64_t) n; st.counters["valgrind_memcheck_runs_with_errors"] = (uint64_t) bad;
    if (bad) {
        bool in_lib = first.find("libjp_") != std::string::npos;
        st.violated = true; st.v = {in_lib ? "C17" : "HARNESS", "valgrind-memcheck", first, 0};
        return false;
    }
    return true;
}

bool register_static_phases(const std::string& prop, CheckSpec& spec) {
    if (prop == "C17" && spec.tier == "thorough") spec.static_phases.push_back(valgrind_phase);
    if (prop == "C19") spec.static_phases.push_back(abi_phase);
    if (prop == "C20") spec.static_phases.push_back(audit_phase);
    return true;
}

} // namespace jv
