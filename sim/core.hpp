// core.hpp - plans, run environment, event log/fingerprint, violations, scenario interface.
#pragma once
#include <map>
#include <set>
#include <string>
#include <vector>
#include <functional>
#include "util.hpp"
#include "rep.hpp"
#include "stream.hpp"

namespace jv {

// One step of a plan. Faults are attached to the op they hit. Handles are
// interpreted modulo the number of live objects, so every subsequence of a
// plan is executable (this is what makes shrinking cheap).
struct Op {
    std::string kind;
    std::vector<int64_t> a;          // integer arguments
    std::vector<std::string> s;      // token arguments (attribute lists, hex blobs, fault specs)
    std::string str() const {
        std::string r = kind;
        for (auto v : a) r += strf(" %lld", (long long) v);
        if (!s.empty()) { r += " |"; for (auto& t : s) { r += " "; r += t; } }
        return r;
    }
    static Op parse(const std::string& line) {
        Op o; size_t i = 0; bool toks = false;
        std::vector<std::string> parts; std::string cur;
        for (char c : line) { if (c == ' ') { if (!cur.empty()) parts.push_back(cur); cur.clear(); } else cur += c; }
        if (!cur.empty()) parts.push_back(cur);
        for (auto& p : parts) {
            if (i++ == 0) { o.kind = p; continue; }
            if (p == "|") { toks = true; continue; }
            if (toks) o.s.push_back(p); else o.a.push_back(strtoll(p.c_str(), nullptr, 10));
        }
        return o;
    }
    int64_t arg(size_t i, int64_t d = 0) const { return i < a.size() ? a[i] : d; }
};

struct Plan {
    std::string scenario;
    std::map<std::string, int64_t> cfg;
    std::vector<Op> ops;
    int64_t c(const std::string& k, int64_t d = 0) const { auto it = cfg.find(k); return it == cfg.end() ? d : it->second; }
    JsonP to_json() const {
        auto j = Json::obj(); j->set("scenario", scenario);
        auto c = Json::obj(); for (auto& kv : cfg) c->seti(kv.first, kv.second); j->set("cfg", c);
        auto o = Json::arr(); for (auto& op : ops) o->push(Json::str(op.str())); j->set("ops", o);
        return j;
    }
    static bool from_json(const Json& j, Plan& p) {
        p.scenario = j.gets("scenario"); p.cfg.clear(); p.ops.clear();
        auto c = j.get("cfg"); if (c) for (auto& kv : c->o) p.cfg[kv.first] = kv.second->is_int ? kv.second->inum : (int64_t) kv.second->num;
        auto o = j.get("ops"); if (!o) return false;
        for (auto& e : o->a) p.ops.push_back(Op::parse(e->s));
        return !p.scenario.empty();
    }
    std::string brief(size_t maxops = 12) const {
        std::string s = scenario + "{";
        for (auto& kv : cfg) s += kv.first + "=" + std::to_string(kv.second) + ",";
        s += "} ";
        for (size_t i = 0; i < ops.size() && i < maxops; i++) { s += "[" + ops[i].str().substr(0, 160) + "] "; }
        if (ops.size() > maxops) s += strf("... (%zu ops)", ops.size());
        return s;
    }
};

struct Violation {
    std::string prop, oracle, detail; int step;
};

// Everything a run reports back.
struct RunResult {
    bool violated = false; Violation v;
    std::string fingerprint;                       // sha256 of the event log
    std::map<std::string, uint64_t> counters;      // fault kinds fired, reach probes, steps, calls
    std::vector<std::pair<uint64_t, bool>> cases;  // (signature, non-trivial) of the distinct cases this run explored
    std::vector<std::string> log_lines;            // only when verbose
    bool crashed = false; std::string crash_info;  // filled in by the engine for dead workers
    std::vector<std::string> sched;                // scheduling decisions taken (explicit-schedule tokens), when the run had a scheduler
};

struct RunEnv {
    Replicas* reps = nullptr;
    Rep* rep = nullptr;            // replica executing this run
    int view = 0;                  // 0 C API, 1 C++ API
    bool verbose = false;
    bool allow_known = false;      // let the generator/interpreter execute known-finding triggers
    std::string focus;             // property whose check is running ("" = all)
    Stream stream; HashStub hash;
    Sha256 logsha; RunResult res; int step = 0;
    uint64_t lib_calls = 0;

    void log(const std::string& line) {
        logsha.update(line); logsha.update("\n", 1);
        if (verbose) res.log_lines.push_back(line);
    }
    void logf(const char* fmt, ...) __attribute__((format(printf, 2, 3))) {
        char buf[2048]; va_list ap; va_start(ap, fmt); vsnprintf(buf, sizeof(buf), fmt, ap); va_end(ap); log(buf);
    }
    void logbytes(const char* tag, const void* p, size_t n) { log(std::string(tag) + " " + sha_hex(p, n, 12)); }
    void count(const std::string& k, uint64_t n = 1) { res.counters[k] += n; }
    void add_case(const std::string& sig, bool nontrivial) { res.cases.push_back({hash64(sig), nontrivial}); }
    [[noreturn]] void fail(const std::string& prop, const std::string& oracle, const std::string& detail) {
        throw Violation{prop, oracle, detail, step};
    }
    void check(bool cond, const char* prop, const char* oracle, const std::string& detail) { if (!cond) fail(prop, oracle, detail); }
    // A value-only mismatch that belongs to a property other than the one being checked does not end the run: it is counted
    // (and reported by that property's own check) and the history continues, so that the focus property's own oracles still
    // get to judge what follows. Structural mismatches (after which continuing is unsafe) use fail()/check().
    bool soft(bool cond, const char* prop, const char* oracle, const std::string& detail) {
        if (cond) return true;
        if (!focus.empty() && focus != prop) { count(std::string("other_property_violation:") + prop + ":" + oracle); logf("SOFT %s %s", prop, oracle); return false; }
        fail(prop, oracle, detail);
    }
};

struct Scenario {
    virtual ~Scenario() {}
    virtual const char* name() const = 0;
    // Replica-independent: uses only the PRNG and abstract model state.
    virtual Plan generate(uint64_t seed, const std::map<std::string, int64_t>& knobs) = 0;
    virtual void run(const Plan& plan, RunEnv& env) = 0;
    // Candidate simplifications of one op (for the shrinker); default: none.
    virtual std::vector<Op> simplify_op(const Plan&, size_t) { return {}; }
    // Candidate simplifications of the configuration.
    virtual std::vector<std::map<std::string, int64_t>> simplify_cfg(const Plan&) { return {}; }
    // env.step of the first op of a plan (explicit schedules name steps; the shrinker renumbers them when it removes ops).
    virtual int step_offset() const { return 0; }
};

Scenario* find_scenario(const std::string& name);
void register_scenario(Scenario* s);
struct ScenarioReg { explicit ScenarioReg(Scenario* s) { register_scenario(s); } };

// Run one plan on one replica/view, catching violations and stream overruns.
RunResult execute_plan(const Plan& plan, Replicas& reps, const std::string& rep_label, int view, bool verbose, const std::string& focus, bool allow_known);

} // namespace jv
