// sc_enc.cpp - scenario "enc": senders encode G1/G2 elements, a store damages the bytes,
// receivers decode with validating and non-validating decode (C09; memory safety rides along for C17).
#include <sys/mman.h>
#include "core.hpp"
#include "wire.hpp"

namespace jv {

struct EncScenario : Scenario {
    const char* name() const override { return "enc"; }

    static std::string rhex(Rng& r, size_t n) { std::vector<uint8_t> b(n); r.fill(b.data(), n); return hex(b.data(), n); }

    static std::vector<std::string> named_faults(int g, bool compressed, Rng& r) {
        std::vector<std::string> f;
        size_t n = enc_size(g, compressed), ncoord = (g == 1 ? 1 : 2) * (compressed ? 1 : 2);
        for (size_t i = 0; i < ncoord; i++) f.push_back(strf("plusq:%zu", i));
        for (int m : std::vector<int>{FL_COMPRESSED, FL_INFINITY, FL_GREATER, FL_COMPRESSED | FL_INFINITY, FL_INFINITY | FL_GREATER}) { f.push_back(strf("flagset:%d", m)); f.push_back(strf("flagclr:%d", m)); }
        for (size_t i = 1; i < ncoord; i++) for (int m : std::vector<int>{0x80, 0x40, 0x20, 0xE0}) f.push_back(strf("cflag:%zu:%d", i, m));
        if (!compressed) { f.push_back(strf("flip:%zu:0", n - 1)); f.push_back(strf("flip:%zu:0", n / 2 - 1)); f.push_back("negy"); f.push_back("isocurve:2"); f.push_back(strf("isocurve:%d", 3 + (int) r.below(1000))); }
        f.push_back("wrongsub:" + rhex(r, 8)); f.push_back("wrongsub:" + rhex(r, 8));
        if (compressed) { f.push_back("xnoy:" + rhex(r, 8)); f.push_back("xnoy:" + rhex(r, 8)); }
        for (int v = 0; v < 8; v++) f.push_back(strf("badinf:%d", v));
        f.push_back("zero"); f.push_back("ff"); f.push_back("wrongform");
        f.push_back("other:" + rhex(r, 32)); f.push_back("none");
        return f;
    }

    Plan generate(uint64_t seed, const std::map<std::string, int64_t>& knobs) override {
        Rng r(seed); Plan p; p.scenario = name();
        auto kn = [&](const char* k, int64_t d) { auto it = knobs.find(k); return it == knobs.end() ? d : it->second; };
        int64_t idx = kn("__idx", (int64_t) r.below(1 << 20));
        bool enumerate = kn("enumerate", 0) != 0, allbits = kn("allbits", 0) != 0;
        int g = enumerate ? (int) (idx % 2) + 1 : r.range(1, 2);
        p.cfg["g"] = g;
        // pool: identity, generator, multiples in normalised and non-normalised representation
        p.ops.push_back({"ELEM", {0}, {}});
        p.ops.push_back({"ELEM", {1}, {}});
        int extra = enumerate ? 2 : r.range(1, 4);
        for (int i = 0; i < extra; i++) p.ops.push_back({"ELEM", {r.range(2, 4)}, {rhex(r, 32), rhex(r, 32), rhex(r, 47)}});
        p.ops.push_back({"ELEM", {3}, {rhex(r, 32), rhex(r, 32), strf("zraw:%d:%d", r.range(1, 10), r.range(1, 3))}});
        p.ops.push_back({"ELEM", {7}, {rhex(r, 32)}});     // identity by flag, coordinates left over
        p.ops.push_back({"ELEM", {5}, {rhex(r, 32)}});     // element whose x is small enough for x+q to fit (for plusq)
        for (int wi = 0; wi < (g == 1 ? 3 : 4); wi++) p.ops.push_back({"ELEM", {6, wi}, {}});    // subgroup elements with one coordinate sharing its top 32-bit word with q: boundary of every word-wise "coordinate < q" comparison
        size_t npool = p.ops.size();
        for (size_t e = 0; e < npool; e++) p.ops.push_back({"RT", {(int64_t) e}, {}});
        if (enumerate) {
            bool compressed = ((idx / 2) % 2) != 0; int64_t e = 1 + (idx / 4) % (int64_t) (npool - 1);
            for (auto& f : named_faults(g, compressed, r)) p.ops.push_back({"DEC", {e, compressed}, {f}});
            for (auto& f : named_faults(g, compressed, r)) p.ops.push_back({"DEC", {0, compressed}, {f}});
            size_t n = enc_size(g, compressed);
            for (size_t off = 0; off < n; off++) {
                if (allbits) for (int b = 0; b < 8; b++) p.ops.push_back({"DEC", {e, compressed}, {strf("flip:%zu:%d", off, b)}});
                else p.ops.push_back({"DEC", {e, compressed}, {strf("flip:%zu:%d", off, (int) ((off * 3 + (size_t) idx / 4) % 8))}});
            }
            for (int k = 0; k < 6; k++) { bool c = compressed; p.ops.push_back({"JUNK", {c}, {rhex(r, enc_size(g, c))}}); }
        } else {
            int nops = r.range(10, 60);
            for (int i = 0; i < nops; i++) {
                bool compressed = r.chance(1, 2); int64_t e = (int64_t) r.below(npool);
                int k = r.range(0, 9);
                if (k == 0) p.ops.push_back({"JUNK", {compressed}, {rhex(r, enc_size(g, compressed))}});
                else if (k <= 4) { auto nf = named_faults(g, compressed, r); p.ops.push_back({"DEC", {e, compressed}, {nf[r.below(nf.size())]}}); }
                else if (k <= 7) p.ops.push_back({"DEC", {e, compressed}, {strf("flip:%d:%d", (int) r.below(enc_size(g, compressed)), r.range(0, 7))}});
                else {  // two faults on one message
                    auto nf = named_faults(g, compressed, r);
                    p.ops.push_back({"DEC", {e, compressed}, {nf[r.below(nf.size())], strf("flip:%d:%d", (int) r.below(enc_size(g, compressed)), r.range(0, 7))}});
                }
            }
        }
        return p;
    }

    struct Ctx {
        RunEnv& env; Rep& R; int g; int view;
        std::vector<Buf> pool;     // affine elements
        size_t asz() const { return R.sz(g == 1 ? JV_SZ_G1A : JV_SZ_G2A); }
        void marshal(std::vector<uint8_t>& out, const void* a, bool c) {
            MBytes b(enc_size(g, c), (size_t) (env.lib_calls % 5 == 0 ? 1 + env.lib_calls % 13 : 0), 0xA5); env.lib_calls++;
            if (g == 1) R.jv_g1_marshal(view, b.p, a, c); else R.jv_g2_marshal(view, b.p, a, c);
            out.assign(b.p, b.p + b.n);
        }
        int unmarshal(void* out, const std::vector<uint8_t>& in, bool c, bool checked) {
            // one delivery in four arrives in memory the receiver may only read (a constant in .rodata, a read-only mapping of a file): the input is const
            if (env.lib_calls % 4 == 1 && !in.empty()) {
                size_t off = (size_t) (env.lib_calls % 7); uint8_t* m = (uint8_t*) mmap(nullptr, 8192, PROT_READ | PROT_WRITE, MAP_PRIVATE | MAP_ANONYMOUS, -1, 0);
                if (m != MAP_FAILED) { uint8_t* p = m + 4096 - in.size() - off; memcpy(p, in.data(), in.size()); mprotect(m, 4096, PROT_READ); mprotect(m + 4096, 4096, PROT_NONE); env.lib_calls++; env.count("fault:encoding_delivered_in_read_only_memory");
                    int rv = g == 1 ? R.jv_g1_unmarshal(view, out, p, c, checked) : R.jv_g2_unmarshal(view, out, p, c, checked); munmap(m, 8192); return rv; }
            }
            MBytes b(in.data(), in.size(), (size_t) (env.lib_calls % 3 == 0 ? 1 + env.lib_calls % 15 : 0)); env.lib_calls++;     // exact-size heap copy: over-reads are visible to ASan; arbitrary alignment
            return g == 1 ? R.jv_g1_unmarshal(view, out, b.p, c, checked) : R.jv_g2_unmarshal(view, out, b.p, c, checked);
        }
        std::string canon(const void* a) { uint8_t c[193]; if (g == 1) { R.jv_g1a_canon(c, a); return std::string((char*) c, 97); } R.jv_g2a_canon(c, a); return std::string((char*) c, 193); }
        void mul_gen(Buf& outA, const std::vector<uint8_t>& k) {
            env.lib_calls += 2;
            if (g == 1) { Buf gen(R.sz(JV_SZ_G1A)); R.jv_const_get(JV_EK_G1A, 1, gen); G1v p; R.jv_g1_multiply_affine(view, p.b, gen, k.data()); R.jv_g1affine_from_projective(view, outA, p.b); }
            else { Buf gen(R.sz(JV_SZ_G2A)); R.jv_const_get(JV_EK_G2A, 1, gen); G2v p; R.jv_g2_multiply_affine(view, p.b, gen, k.data()); R.jv_g2affine_from_projective(view, outA, p.b); }
        }
    };

    // point on the curve from a seed, not cofactor-cleared (try-and-increment in the model, via the adapter's from_x)
    static bool curve_point_from_seed(Ctx& c, const std::string& seedhex, bool want_no_y, Buf& outA, std::vector<uint8_t>& x_be) {
        Rng r(strhash(seedhex.c_str()));
        for (int t = 0; t < 200; t++) {
            uint8_t xle[96]; r.fill(xle, 96); xle[47] &= 0x0F; xle[95] &= 0x0F;   // < 2^380 < q
            int ok = c.g == 1 ? c.R.jv_g1a_from_x(outA, xle, (int) (r.next() & 1)) : c.R.jv_g2a_from_x(outA, xle, (int) (r.next() & 1));
            if ((ok != 0) != want_no_y) {
                x_be.assign(c.g == 1 ? 48 : 96, 0);
                if (c.g == 1) for (int i = 0; i < 48; i++) x_be[(size_t) i] = xle[47 - i];
                else for (int i = 0; i < 48; i++) { x_be[(size_t) i] = xle[95 - i]; x_be[48 + (size_t) i] = xle[47 - i]; }
                return true;
            }
        }
        return false;
    }

    void run(const Plan& plan, RunEnv& env) override {
        Rep& R = *env.rep; Ctx c{env, R, (int) plan.c("g", 1), env.view, {}};
        int g = c.g;
        for (size_t oi = 0; oi < plan.ops.size(); oi++) {
            const Op& op = plan.ops[oi]; env.step = (int) oi;
            if (op.kind == "ELEM") {
                Buf a(c.asz()); int src = (int) op.arg(0);
                std::vector<uint8_t> k = op.s.size() > 0 ? unhex(op.s[0]) : std::vector<uint8_t>(32, 0); k.resize(32);
                if (src == 0) R.jv_const_get(g == 1 ? JV_EK_G1A : JV_EK_G2A, 0, a);
                else if (src == 1) R.jv_const_get(g == 1 ? JV_EK_G1A : JV_EK_G2A, 1, a);
                else if (src == 2) c.mul_gen(a, k);
                else if (src == 3 || src == 4) {
                    // non-normalised projective representative, converted through the API
                    std::vector<uint8_t> k2 = op.s.size() > 1 ? unhex(op.s[1]) : std::vector<uint8_t>(32, 1); k2.resize(32);
                    std::vector<uint8_t> lam = op.s.size() > 2 ? unhex(op.s[2]) : std::vector<uint8_t>(47, 3); lam.resize(48); lam[47] = 0; if (lam[0] == 0) lam[0] = 2;
                    // "zraw:<j>:<t>": the representative's z is chosen by its STORED (internal-form) value t*2^(32j) - whole low machine words zero, the
                    // shape on which a word-wise loop of the inversion (shift out the trailing zeros, test the low word) has nothing to look at
                    bool zraw = op.s.size() > 2 && op.s[2].compare(0, 5, "zraw:") == 0;
                    if (zraw) { int j = 2, t = 1; sscanf(op.s[2].c_str() + 5, "%d:%d", &j, &t); static const Bn Rinv = Bn::powmod(Bn::mod(Bn(1).shl(384), K().q), Bn::sub(K().q, Bn(2)), K().q);
                        Bn raw = Bn((uint64_t) (t ? t : 1)).shl(32 * (j % 11)); Bn l = Bn::mulmod(raw, Rinv, K().q); lam.assign(48, 0); l.to_le(lam.data(), 48); env.count("fault:projective_representative_whose_stored_z_has_zero_low_words"); }
                    env.lib_calls += 4;
                    if (g == 1) {
                        Buf gen(R.sz(JV_SZ_G1A)); R.jv_const_get(JV_EK_G1A, 1, gen); G1v p, q2, s;
                        R.jv_g1_multiply_affine(c.view, p.b, gen, k.data()); if (zraw) { Buf t1(R.sz(JV_SZ_G1A)); R.jv_g1affine_from_projective(1, t1, p.b); R.jv_g1_from_affine(1, p.b, t1); }
                        if (src == 4) { R.jv_g1_multiply_affine(c.view, q2.b, gen, k2.data()); R.jv_g1_add(c.view, s.b, p.b, q2.b); } else R.jv_g1_scale_z(s.b, p.b, lam.data());
                        R.jv_g1affine_from_projective(c.view, a, s.b);
                    } else {
                        Buf gen(R.sz(JV_SZ_G2A)); R.jv_const_get(JV_EK_G2A, 1, gen); G2v p, q2, s;
                        R.jv_g2_multiply_affine(c.view, p.b, gen, k.data()); if (zraw) { Buf t2(R.sz(JV_SZ_G2A)); R.jv_g2affine_from_projective(1, t2, p.b); R.jv_g2_from_affine(1, p.b, t2); }
                        if (src == 4) { R.jv_g2_multiply_affine(c.view, q2.b, gen, k2.data()); R.jv_g2_add(c.view, s.b, p.b, q2.b); } else R.jv_g2_scale_z(s.b, p.b, lam.data());
                        R.jv_g2affine_from_projective(c.view, a, s.b);
                    }
                } else if (src == 7) {
                    // an identity element the caller made by setting the flag on an object that held [k]G: the coordinates stay, the library's
                    // predicates read the flag only. It encodes as the identity and must round-trip like any other identity object.
                    c.mul_gen(a, k); std::string cn = c.canon(a);
                    if (cn[0] == 0) { if (g == 1) R.jv_g1a_set_xy(a, (const uint8_t*) cn.data() + 1, 2); else { uint8_t be[192]; memcpy(be, cn.data() + 49, 48); memcpy(be + 48, cn.data() + 1, 48); memcpy(be + 96, cn.data() + 145, 48); memcpy(be + 144, cn.data() + 97, 48); R.jv_g2a_set_xy(a, be, 2); } }
                    env.count("fault:identity_flag_set_on_object_holding_coordinates");
                } else if (src == 6) {
                    // [k]G with a coordinate whose top 32-bit word is q's (0x1a0111ea): found by tools/witness_search.cpp (about 2^-31 per
                    // coordinate), verified here through the library, not trusted. {k, byte offset of that coordinate in x||y (c1 before c0)}
                    static const struct { uint64_t k; size_t off; } W1[] = {{51858613ull, 0}, {2397157388ull, 48}}, W2[] = {{2342951145ull, 0}, {2661914046ull, 144}, {2860139547ull, 96}, {1875757969ull, 48}};
                    if (g == 1 && op.arg(1) == 2) {
                        // [k]G whose y and -y agree in the top 32-bit word of their STORED form (the ordering that picks the compressed form's sign flag decides
                        // on lower words there); same provenance, verified on the object's own bytes
                        uint64_t kv3 = 16978836724ull; std::vector<uint8_t> kk(32, 0); memcpy(kk.data(), &kv3, 8); c.mul_gen(a, kk);
                        Buf neg(c.asz()); R.jv_g1affine_negate(1, neg, a); bool tie = memcmp(a.p + 48 + 44, neg.p + 48 + 44, 4) == 0;
                        env.count(tie ? "probe:element_whose_y_and_minus_y_share_the_top_stored_word" : "probe:boundary_element_constant_stale");
                        env.logbytes("ELEM", c.canon(a).data(), 97); c.pool.push_back(std::move(a)); continue;
                    }
                    size_t wi = (size_t) op.arg(1) % (g == 1 ? 2 : 4); uint64_t kv = g == 1 ? W1[wi].k : W2[wi].k; size_t off = g == 1 ? W1[wi].off : W2[wi].off;
                    std::vector<uint8_t> kk(32, 0); memcpy(kk.data(), &kv, 8); c.mul_gen(a, kk);
                    MPoint m = mpoint_of_affine(R, g, a); bool hit = !m.inf && m.xy.size() >= off + 4 && m.xy[off] == 0x1a && m.xy[off + 1] == 0x01 && m.xy[off + 2] == 0x11 && m.xy[off + 3] == 0xea;
                    env.count(hit ? strf("probe:element_with_coordinate_top_word_equal_to_q_top_word_g%d_%zu", g, wi) : "probe:boundary_element_constant_stale");
                } else {
                    // src 5: a subgroup element whose every coordinate is small enough that coordinate + q still fits in 381 bits
                    Rng r(strhash(op.s.empty() ? "x" : op.s[0].c_str())); bool found = false;
                    Bn lim = Bn::sub(Bn(1).shl(381), K().q);
                    for (int t = 0; t < 400 && !found; t++) {
                        r.fill(k.data(), 32); c.mul_gen(a, k);
                        MPoint m = mpoint_of_affine(R, g, a); found = !m.inf;
                        for (size_t i = 0; i < m.xy.size() / 2 && found; i += 48) if (Bn::from_be(&m.xy[i], 48) >= lim) found = false;   // x coordinates
                    }
                    env.count(found ? "probe:small_x_element_found" : "probe:small_x_element_not_found");
                }
                env.logbytes("ELEM", c.canon(a).data(), g == 1 ? 97 : 193);
                int st = g == 1 ? R.jv_g1a_status(a) : R.jv_g2a_status(a);
                env.check((st & 6) == 6, "C09", "harness:pool-element-valid", "pool element is not a subgroup element (arithmetic trusted base broken?)");
                c.pool.push_back(std::move(a));
            } else if (op.kind == "RT") {
                if (c.pool.empty()) continue;
                Buf& a = c.pool[(size_t) op.arg(0) % c.pool.size()];
                MPoint m = mpoint_of_affine(R, g, a);
                std::string ca = c.canon(a);
                for (int comp = 0; comp < 2; comp++) {
                    std::vector<uint8_t> b; c.marshal(b, a, comp);
                    std::vector<uint8_t> mb = model_encode(m, comp);
                    env.check(b == mb, "C09", "O1:layout", strf("%s encoding of a G%d element differs from the format: got %s want %s", comp ? "compressed" : "uncompressed", g, hex(b.data(), b.size()).c_str(), hex(mb.data(), mb.size()).c_str()));
                    for (int chk = 0; chk < 2; chk++) {
                        Buf out(c.asz(), 0xCD);
                        int ok = c.unmarshal(out, b, comp, chk);
                        env.check(ok == 1, "C09", "O1:roundtrip-accept", strf("%s decode rejected the library's own %s encoding of a G%d element", chk ? "validating" : "non-validating", comp ? "compressed" : "uncompressed", g));
                        env.check(c.canon(out) == ca, "C09", "O1:roundtrip-equal", strf("%s decode of the %s encoding returned a different G%d element", chk ? "validating" : "non-validating", comp ? "compressed" : "uncompressed", g));
                    }
                    env.logbytes("RT", b.data(), b.size());
                }
                env.add_case(strf("RT g%d inf%d", g, m.inf), false);
            } else if (op.kind == "DEC" || op.kind == "JUNK") {
                bool comp; std::vector<uint8_t> b; std::string ftag; bool changed = false; int src = -1;
                if (op.kind == "JUNK") {
                    comp = op.arg(0) != 0; b = unhex(op.s.empty() ? "" : op.s[0]); b.resize(enc_size(g, comp));
                    if (comp) b[0] |= FL_COMPRESSED; else b[0] &= (uint8_t) ~FL_COMPRESSED;   // let junk get past the form check half of the time
                    if (b.size() > 1 && (b[1] & 1)) b[0] ^= FL_COMPRESSED;
                    ftag = "junk"; changed = true; env.count("fault:junk_bytes");
                } else {
                    if (c.pool.empty()) continue;
                    size_t e = (size_t) op.arg(0) % c.pool.size(); src = (int) e; comp = op.arg(1) != 0;
                    Buf& a = c.pool[e];
                    std::vector<uint8_t> b0; c.marshal(b0, a, comp); b = b0;
                    for (auto& tok : op.s) {
                        std::string kind = tok.substr(0, tok.find(':')); std::string arg = tok.find(':') == std::string::npos ? "" : tok.substr(tok.find(':') + 1);
                        bool fired = false;
                        if (kind == "none") fired = false;
                        else if (kind == "plusq") fired = add_q_at(b, (size_t) atoi(arg.c_str()) * 48);
                        else if (kind == "cflag") { size_t ci = (size_t) atoi(arg.c_str()); int m = atoi(arg.substr(arg.find(':') + 1).c_str()); if (ci * 48 < b.size()) { uint8_t o = b[ci * 48]; b[ci * 48] |= (uint8_t) m; fired = o != b[ci * 48]; } }
                        else if (kind == "negy") {
                            MPoint m = mpoint_of_affine(R, g, a);
                            if (!m.inf && !comp) { size_t half = m.xy.size() / 2; for (size_t i = 0; i < half; i += 48) { Bn y = Bn::from_be(&m.xy[half + i], 48); if (!y.is_zero()) y = Bn::sub(K().q, y); y.to_be(&b[half + i], 48); } fired = true; }
                        }
                        else if (kind == "isocurve") { if (!comp) fired = iso_scale_uncompressed(b, (uint64_t) atoll(arg.c_str())); }
                        else if (kind == "wrongsub") { Buf pa(c.asz()); std::vector<uint8_t> xb; if (curve_point_from_seed(c, arg, false, pa, xb)) { if (strhash(arg.c_str()) & 1) { cofactor_part(R, g, pa); env.count("fault:element_in_the_cofactor_part_only"); } b = model_encode(mpoint_of_affine(R, g, pa), comp); fired = true; } }
                        else if (kind == "xnoy") { Buf pa(c.asz()); std::vector<uint8_t> xb; if (comp && curve_point_from_seed(c, arg, true, pa, xb)) { b = xb; b[0] |= FL_COMPRESSED; if (strhash(arg.c_str()) & 1) b[0] |= FL_GREATER; fired = true; } }
                        else if (kind == "badinf") {
                            int v = atoi(arg.c_str());
                            std::vector<uint8_t> inf(enc_size(g, comp), 0); inf[0] = FL_INFINITY | (comp ? FL_COMPRESSED : 0);
                            if (v == 0) { b[0] |= FL_INFINITY; fired = true; }
                            else if (v == 1) { b = inf; b[0] |= FL_GREATER; fired = true; }
                            else if (v == 2) { b = inf; b[b.size() - 1] = 1; fired = true; }
                            else if (v == 3) { b = inf; b[0] |= 1; fired = true; }
                            else if (v == 4) { b = inf; b[b.size() / 2] = 0x80; fired = true; }
                            else {   // 5,6,7: the infinity flag over coordinate slots that hold exactly the modulus q (which parses to zero): last slot / first slot / every slot
                                b = inf; uint8_t qb[48]; K().q.to_be(qb, 48); size_t ns = b.size() / 48;
                                for (size_t sl = 0; sl < ns; sl++) if (v == 7 || (v == 5 && sl == ns - 1) || (v == 6 && sl == 0)) for (size_t i = 0; i < 48; i++) b[sl * 48 + i] |= qb[i];
                                fired = true;
                            }
                        }
                        else if (kind == "wrongform") { std::vector<uint8_t> o; c.marshal(o, a, !comp); o.resize(enc_size(g, comp), 0); b = o; fired = true; }
                        else if (kind == "other") { std::vector<uint8_t> k = unhex(arg); k.resize(32); Buf oa(c.asz()); c.mul_gen(oa, k); c.marshal(b, oa, comp); fired = b != b0; }
                        else fired = apply_byte_fault(b, tok, 0);
                        env.count((fired ? "fault:" : "fault_not_applicable:") + kind);
                        if (fired) changed = true;
                        ftag += kind + "+";
                    }
                    if (b.size() != enc_size(g, comp)) b.resize(enc_size(g, comp), 0);
                    changed = changed && b != b0;
                }
                // ---- oracles
                std::string why; Buf mpt; bool canonical = model_canonical(R, g, comp, b.data(), why, &mpt);
                Buf out1(c.asz(), 0xCD), out2(c.asz(), 0xCD);
                int okc = c.unmarshal(out1, b, comp, true);
                int oku = c.unmarshal(out2, b, comp, false);
                {   // duplicate delivery (the store retries): the verdict on the same bytes must not depend on what was decoded before
                    Buf out3(c.asz(), 0xCD); int okc2 = c.unmarshal(out3, b, comp, true); env.count("fault:duplicate_delivery");
                    if (okc2 != okc) env.fail("C09", "O2:repeat-delivery-same-verdict", strf("validating decode of the same %s G%d bytes returned %d the first time and %d the second time (fault %s)", comp ? "compressed" : "uncompressed", g, okc, okc2, ftag.c_str()));
                }
                env.logf("DEC g%d c%d %s bytes=%s canonical=%d checked=%d unchecked=%d", g, comp, ftag.c_str(), sha_hex(b.data(), b.size(), 8).c_str(), canonical, okc, oku);
                env.count(canonical ? "probe:damaged_bytes_still_canonical" : "probe:damaged_bytes_non_canonical");
                env.count(okc ? "probe:validating_decode_accepted" : "probe:validating_decode_rejected");
                if (okc && !canonical)
                    env.fail("C09", "O2:accepts-only-canonical", strf("validating decode accepted a non-canonical %s G%d encoding (%s) after fault %s: %s", comp ? "compressed" : "uncompressed", g, why.c_str(), ftag.c_str(), hex(b.data(), b.size()).c_str()));
                if (!okc && canonical)
                    env.fail("C09", "O2:accepts-every-canonical", strf("validating decode rejected a canonical %s G%d encoding after fault %s: %s", comp ? "compressed" : "uncompressed", g, ftag.c_str(), hex(b.data(), b.size()).c_str()));
                if (okc) {
                    env.check(c.canon(out1) == c.canon(mpt), "C09", "O2:decoded-point", "validating decode returned a different point than the encoding describes, fault " + ftag);
                    std::vector<uint8_t> re; c.marshal(re, out1, comp);
                    env.check(re == b, "C09", "O2:reencode", "re-encoding the accepted element does not reproduce the accepted bytes, fault " + ftag);
                }
                if (canonical) {
                    env.check(oku == 1, "C09", "O3:nonvalidating-accepts-valid", "non-validating decode rejected a valid encoding, fault " + ftag);
                    env.check(c.canon(out2) == c.canon(mpt), "C09", "O3:nonvalidating-equals-validating", "non-validating decode of a valid encoding returned a different point than validating decode, fault " + ftag);
                } else if (oku) {
                    // C17: whatever a non-validating read produced can be marshalled again without a report
                    std::vector<uint8_t> re; c.marshal(re, out2, comp); c.marshal(re, out2, !comp);
                }
                env.add_case(strf("DEC g%d c%d %s src%d canon%d", g, comp, ftag.c_str(), src, canonical), changed);
            }
        }
    }

    std::vector<Op> simplify_op(const Plan& p, size_t i) override {
        std::vector<Op> r; const Op& op = p.ops[i];
        if (op.kind == "DEC" && op.s.size() > 1) for (size_t k = 0; k < op.s.size(); k++) { Op o = op; o.s.erase(o.s.begin() + (long) k); r.push_back(o); }
        if (op.kind == "DEC" && op.arg(0) > 1) { Op o = op; o.a[0] = 1; r.push_back(o); }
        if (op.kind == "ELEM" && op.arg(0) > 2 && op.arg(0) < 5) { Op o = op; o.a[0] = 2; r.push_back(o); }
        return r;
    }
};

static ScenarioReg reg_enc(new EncScenario());

} // namespace jv
