// sc_wkd.cpp - scenario "wkd": whole WKD-IBE lifetimes (setup, delegation trees, resampling,
// adjustment, precomputation, encryption, signatures, marshalling hops, attacks) judged against
// M-wkd after every step. Decides C11, C12, C13, C14 and carries C15/C17 hops.
#include <algorithm>
#include "core.hpp"
#include "wkd_model.hpp"
#include "wkd_wire.hpp"

namespace jv {

struct KeyM {
    Buf sk, barr; size_t cap = 0, cap_alloc = 0;
    std::vector<Slot> pat; Bn rho; bool tainted = false;
    int ndparent = -1; std::vector<MAttr> ndlist; bool ndchild = false;   // lineage for adjust_nondelegable
};
struct PreM { Buf pre; std::vector<MAttr> list; };
struct CtM { Buf ct; std::vector<Bn> exps; GTv msg; bool tainted = false; bool degenerate = false; };
struct SigM { Buf sig; std::vector<MAttr> list; Bn msg; bool expect_valid = true; bool degenerate = false; };

struct WkdRun {
    RunEnv& env; W w; Rep& R; int view; SysM sys;
    std::vector<KeyM> keys; std::vector<PreM> pres; std::vector<CtM> cts; std::vector<SigM> sigs;
    const Plan& plan;
    std::map<std::string, std::vector<uint8_t>> hopcache;   // intact bytes already judged by the C15 layout/length oracles
    WkdRun(RunEnv& e, const Plan& p) : env(e), w(e), R(*e.rep), view(e.view), plan(p) {}

    // ------------------------------------------------------------ plumbing
    void call_begin(uint64_t sseed, const std::vector<std::string>* faults = nullptr) {
        env.stream.reseed(sseed);
        if (faults) for (auto& f : *faults) push_stream_fault(f);
        env.stream.begin_call(); env.lib_calls++;
    }
    // stream faults attached to an op: "storm8:n" (n digit candidates >= |x|), "tupler" (digits of r: accepted digits, rejected tuple),
    // "tuple:code" (digits of a chosen accepted value), "digit:xm1" (|x|-1), "ff8:n"
    void push_stream_fault(const std::string& f) {
        std::string kind = f.substr(0, f.find(':')), arg = f.find(':') == std::string::npos ? "" : f.substr(f.find(':') + 1);
        auto push8 = [&](const Bn& v) { std::vector<uint8_t> b(8); v.to_le(b.data(), 8); env.stream.push(8, b); };
        auto push_tuple = [&](const Bn& y) { Bn q, rem, cur = y; for (int i = 0; i < 4; i++) { Bn::divmod(cur, K().absx, q, rem); push8(rem); cur = q; } };
        if (kind == "storm8") { int n = atoi(arg.c_str()); for (int i = 0; i < n; i++) push8(i % 2 ? K().absx : Bn::sub(Bn(1).shl(64), Bn(1))); env.count("fault:stream_storm_digits", (uint64_t) n); }
        else if (kind == "tupler") { push_tuple(K().r); env.count("fault:stream_tuple_equal_r"); }
        else if (kind == "tuplerp1") { push_tuple(Bn::add(K().r, Bn(1))); env.count("fault:stream_tuple_r_plus_1"); }
        else if (kind == "tuple") { push_tuple(Bn::mod(value_of_code(arg), K().r)); env.count("fault:stream_tuple_boundary_value"); }
        else if (kind == "digit") { push8(Bn::sub(K().absx, Bn(1))); env.count("fault:stream_digit_x_minus_1"); }
    }
    // after a call that drew one PowersOfX scalar first: what was it?
    Bn drawn_scalar(const char* what) {
        SampleCursor c(env.stream.reqs); Bn y; uint64_t d[4];
        if (!model_powers_random(c, y, d)) {
            // a randomised step that drew nothing at all did not re-randomise: that is the scheme property's own clause ("re-randomisation by a fresh
            // exponent applied to every component"), not only the sampler's
            if (env.stream.reqs.empty() && (env.focus == "C11" || env.focus == "C12" || env.focus == "C13" || env.focus == "C14")) env.fail(env.focus.c_str(), "randomised-step-drew-no-randomness", std::string(what) + " returned without asking the random source for anything");
            env.fail("C10", "M-sample:request-sequence", std::string(what) + ": " + c.err);
        }
        if (c.rejections) env.count("probe:rejections_in_scheme_draws", c.rejections);
        return y;
    }
    void expect_no_draws(const char* what) { if (!env.stream.reqs.empty()) env.fail("C11", "deterministic-op-drew-randomness", std::string(what) + " consumed random bytes"); }

    // tokens after the l slot directives of an op are stream faults for the op's draw
    std::vector<std::string> trailing_faults(const Op& op, size_t ndirectives) { std::vector<std::string> f; for (size_t i = ndirectives; i < op.s.size(); i++) f.push_back(op.s[i]); return f; }

    KeyM newkey(size_t cap) {
        KeyM k; k.cap = cap; size_t fs = R.sz(JV_SZ_WK_FREESLOT);
        // object re-use: one time in five the destination is a SecretKey object (struct and array) that still holds an earlier key of this
        // system - what a C or Go caller gets when it keeps one object for successive results. Its array has the old capacity.
        const KeyM* stale = nullptr;
        if (!keys.empty() && (keys.size() * 3 + (size_t) env.step) % 5 == 0) { const KeyM& o = keys[((size_t) env.step * 11 + keys.size()) % keys.size()]; if (o.sk.p && !o.tainted && o.barr.p) stale = &o; }
        int stale_l = stale ? R.jv_wk_sk_l(stale->sk) : 0; if (stale && (stale_l < 0 || (size_t) stale_l > stale->cap)) stale = nullptr;
        if (stale) { k.cap = std::max(cap, (size_t) stale_l); cap = k.cap; }
        k.cap_alloc = R.info.sanitized ? cap : std::max(cap, (size_t) sys.l) + 2;
        k.sk.alloc(R.sz(JV_SZ_WK_SK));
        if (k.cap_alloc) k.barr.alloc(k.cap_alloc * fs, 0xEE);
        // heap recycling: a freshly allocated slot array usually holds whatever an earlier key left there (C.malloc does not clear)
        if (k.cap && !keys.empty() && (keys.size() + (size_t) env.step) % 4 != 0) {
            const KeyM& old = keys[((size_t) env.step * 7 + keys.size()) % keys.size()];
            if (old.barr.p) { size_t n = std::min(old.cap * fs, k.cap * fs); memcpy(k.barr.p, old.barr.p, n); env.count("fault:slot_array_allocated_from_recycled_memory"); }
        }
        R.jv_wk_sk_init(k.sk, k.barr.p);
        if (stale) { if (stale_l) memcpy(k.barr.p, stale->barr.p, (size_t) stale_l * fs); R.jv_wk_sk_stale_from(k.sk, stale->sk, stale_l); env.count("fault:destination_key_object_still_holds_an_earlier_key"); }
        return k;
    }
    void check_canary(const KeyM& k, const char* what) {
        size_t fs = R.sz(JV_SZ_WK_FREESLOT);
        // (C12's check goes on with such a key - the harness allocates spare entries behind the caller's array in the plain flavour - so that
        // its own oracles judge what the surplus entries let their holder do; the overrun itself is C17's and C11's finding)
        for (size_t i = k.cap * fs; i < k.cap_alloc * fs; i++) if (k.barr.p[i] != 0xEE) {
            if (env.focus == "C12") { env.count("other_property_violation:C17:slot-array-overrun"); return; }
            env.fail("C17", "slot-array-overrun", strf("%s wrote free-slot entry %zu but the Go wrapper allocates only %zu entries (l - len(attrs))", what, i / fs, k.cap)); }
    }

    // ------------------------------------------------------------ directives -> attribute list + child pattern
    // token per slot: "-" | "h" | "f:<code>" ; optional suffix "~" = use another representative for an already fixed slot
    void resolve(const std::vector<Slot>& parent, const std::vector<std::string>& toks, size_t off, bool omit_all, std::vector<MAttr>& attrs, std::vector<Slot>& child) {
        attrs.clear(); child = parent; child.resize((size_t) sys.l);
        for (int i = 0; i < sys.l; i++) {
            std::string t = off + (size_t) i < toks.size() ? toks[off + (size_t) i] : "-";
            bool alt = !t.empty() && t.back() == '~'; if (alt) t.pop_back();
            const Slot& ps = parent[(size_t) i];
            if (ps.st == ST_FIXED) {
                Bn id = ps.v;
                if (alt) { Bn c = Bn::add(id, K().r); if (c < K().two256) id = c; Bn c2 = Bn::add(c, K().r); if ((off + (size_t) i) % 2 && c2 < K().two256) id = c2; env.count("probe:fixed_slot_repeated_with_other_representative"); }
                attrs.push_back({(uint32_t) i, id, false});
            } else if (ps.st == ST_HIDDEN) {
                if (t == "h") { attrs.push_back({(uint32_t) i, alt ? Bn(9) : Bn(0), true}); env.count("probe:hidden_slot_repeated_as_hidden"); }
            } else {
                if (t.compare(0, 2, "f:") == 0) { Bn id = value_of_code(t.substr(2)); attrs.push_back({(uint32_t) i, id, false}); child[(size_t) i].st = ST_FIXED; child[(size_t) i].v = Bn::mod(id, K().r); if (id >= K().r) env.count("probe:attribute_value_ge_r"); }
                else if (t == "h") { attrs.push_back({(uint32_t) i, alt ? Bn(7 + (uint64_t) i) : Bn(0), true}); child[(size_t) i].st = ST_HIDDEN; env.count("probe:free_slot_hidden"); if (alt) env.count("probe:hidden_entry_with_nonzero_id"); }   // the Go wrapper writes id 0; a C caller may leave any id there: key operations ignore it
                else if (omit_all) child[(size_t) i].st = ST_HIDDEN;
            }
        }
        // reach probes for the cursor interleavings the property text calls out
        bool seen_hide = false;
        for (int i = 0; i < sys.l; i++) {
            if (parent[(size_t) i].st == ST_FREE && child[(size_t) i].st == ST_HIDDEN && !omit_all) seen_hide = true;
            else if (seen_hide && parent[(size_t) i].st == ST_FREE) { env.count("probe:hidden_slot_before_a_later_parent_free_slot"); break; }
        }
    }

    std::vector<MAttr> list_of_pattern(const std::vector<Slot>& p, bool alt = false) {
        std::vector<MAttr> L;
        for (size_t i = 0; i < p.size(); i++) if (p[i].st == ST_FIXED) { Bn id = p[i].v; if (alt) { Bn c = Bn::add(id, K().r); if (c < K().two256) id = c; } L.push_back({(uint32_t) i, id, false}); }
        return L;
    }
    // derive a list from a key pattern and a mutation code
    std::vector<MAttr> derive_list(const std::vector<Slot>& p, int64_t mut) {
        int kind = (int) (mut & 15) % 9; size_t pick = (size_t) ((mut >> 8) & 0xFF); std::string code = value_codes()[(size_t) ((mut >> 4) & 15) % value_codes().size()];
        std::vector<MAttr> L = list_of_pattern(p, kind == 5);
        std::vector<size_t> nonfixed; for (size_t i = 0; i < p.size(); i++) if (p[i].st != ST_FIXED) nonfixed.push_back(i);
        auto sortL = [&]() { std::sort(L.begin(), L.end(), [](const MAttr& a, const MAttr& b) { return a.idx < b.idx; }); };
        // systems with more than 32 / 64 slots: half of the time the slot that is added is one whose index is congruent (mod 64, else mod 32) to a
        // slot already in the list - the two entries that a bitmap indexed by (idx mod word size) cannot tell apart
        if (p.size() > 32 && ((mut >> 16) & 1) && !L.empty()) {
            std::vector<size_t> cong; for (int m : {64, 32}) { for (size_t j : nonfixed) for (auto& a : L) if (j != a.idx && j % (size_t) m == a.idx % (size_t) m) { cong.push_back(j); break; } if (!cong.empty()) break; }
            if (!cong.empty()) { nonfixed = cong; env.count("probe:added_slot_congruent_to_listed_slot_mod_word_size"); }
        }
        switch (kind) {
        case 1: if (!L.empty()) { MAttr& a = L[pick % L.size()]; a.id = Bn::mod(Bn::add(a.id, Bn(1)), K().two256); } else if (!nonfixed.empty()) { L.push_back({(uint32_t) nonfixed[pick % nonfixed.size()], Bn(7), false}); } break;
        case 2: if (!nonfixed.empty()) { Bn v = value_of_code(code); if (Bn::mod(v, K().r).is_zero()) v = Bn(5); L.push_back({(uint32_t) nonfixed[pick % nonfixed.size()], v, false}); sortL(); } break;
        case 3: { std::vector<size_t> nz; for (size_t i = 0; i < L.size(); i++) if (!Bn::mod(L[i].id, K().r).is_zero()) nz.push_back(i); if (!nz.empty()) L.erase(L.begin() + (long) nz[pick % nz.size()]); } break;
        case 4: if (!nonfixed.empty()) { L.push_back({(uint32_t) nonfixed[pick % nonfixed.size()], Bn(0), true}); sortL(); } break;
        case 6: L.clear(); break;
        case 8: if (!nonfixed.empty()) { Bn v = value_of_code(code); if (Bn::mod(v, K().r).is_zero()) v = Bn(5); L.push_back({(uint32_t) nonfixed[pick % nonfixed.size()], v, true}); sortL(); env.count("probe:list_entry_flagged_omit_with_nonzero_id"); } break;
        case 7: { L.clear(); Rng r((uint64_t) mut); bool same = r.chance(1, 3); Bn one = value_of_code(value_codes()[r.below(value_codes().size())]); if (same) env.count("probe:list_whose_entries_all_carry_the_same_id");   // (a third of these lists gives every named slot the identical id)
                  for (int i = 0; i < sys.l; i++) if (r.chance(1, 2)) L.push_back({(uint32_t) i, same ? one : value_of_code(value_codes()[r.below(value_codes().size())]), false}); } break;
        default: break;
        }
        return L;
    }

    // ------------------------------------------------------------ expected objects
    struct ExpKey { std::string a0, a1, bsig; std::vector<std::pair<uint32_t, std::string>> b; };
    ExpKey expected_key(const std::vector<Slot>& pat, const Bn& rho) {
        ExpKey e; G1v P = sys.prod(w, exps_of_pattern(pat));
        e.a0 = w.c1(w.g1add(sys.mskv, w.g1mul(P, rho)));
        e.a1 = w.c2(w.g2mul(sys.g, rho));
        e.bsig = sys.sig ? w.c1(w.g1mul(sys.hsig, rho)) : w.c1(w.g1zero());
        for (int i = 0; i < sys.l; i++) if (pat[(size_t) i].st == ST_FREE) e.b.push_back({(uint32_t) i, w.c1(w.g1mul(sys.h[(size_t) i], rho))});
        return e;
    }

    void check_key(KeyM& k, const char* prop, const std::string& what, bool roundtrip = true) {
        check_canary(k, what.c_str());
        // the key must live in the caller's own object and array: a result that points into another key's storage changes when that key does
        if (k.barr.p && R.jv_wk_sk_barray(k.sk) != (void*) k.barr.p) env.fail("C20", "distinct-output-objects", what + ": the resulting key's free-slot pointer no longer points at the array its caller supplied (the key shares storage with another object)");
        int l = R.jv_wk_sk_l(k.sk);
        ExpKey e = expected_key(k.pat, k.rho);
        std::string pats = pat_str(k.pat);
        if (env.focus == "C12" && (size_t) l <= k.cap) demonstrate_fillable_hidden_slot(k, what);
        if ((size_t) l != e.b.size() && env.focus == "C12" && (size_t) l <= k.cap_alloc) { env.count(std::string("other_property_violation:") + prop + ":key:free-slot-count"); return; }
        if ((size_t) l != e.b.size()) env.fail(prop, "key:free-slot-count", strf("%s: key for pattern %s lists %d free slots, model says %zu", what.c_str(), pats.c_str(), l, e.b.size()));
        if ((size_t) l > k.cap) env.fail("C17", "slot-array-overrun", strf("%s wrote %d free-slot entries, the Go wrapper allocates %zu", what.c_str(), l, k.cap));
        for (int i = 0; i < l; i++) {
            uint32_t idx = R.jv_wk_sk_bidx(k.sk, i);
            if (idx != e.b[(size_t) i].first) env.fail(prop, "key:free-slot-indices", strf("%s: pattern %s: free-slot entry %d has index %u, model says %u (ascending still-free slots)", what.c_str(), pats.c_str(), i, idx, e.b[(size_t) i].first));
            env.soft(w.c1(w.field<G1v>(JV_OK_WK_SK, k.sk, JV_F_SK_B, i)) == e.b[(size_t) i].second, prop, "key:free-slot-element", strf("%s: pattern %s: b element for slot %u is not h_%u^rho", what.c_str(), pats.c_str(), idx, idx));
        }
        if ((R.jv_wk_sk_signatures(k.sk) != 0) != sys.sig) env.fail(prop, "key:signature-flag", what + ": signature flag of the key differs from the parameters");
        env.soft(w.c2(w.field<G2v>(JV_OK_WK_SK, k.sk, JV_F_SK_A1)) == e.a1, prop, "key:a1", strf("%s: pattern %s: a1 is not g^rho for the randomness the key must have", what.c_str(), pats.c_str()));
        env.soft(w.c1(w.field<G1v>(JV_OK_WK_SK, k.sk, JV_F_SK_A0)) == e.a0, prop, "key:a0", strf("%s: pattern %s: a0 is not g2^alpha*(g3*prod h_i^v_i)^rho", what.c_str(), pats.c_str()));
        env.soft(w.c1(w.field<G1v>(JV_OK_WK_SK, k.sk, JV_F_SK_BSIG)) == e.bsig, prop, "key:bsig", what + ": bsig is not hsig^rho (or identity without signature support)");
        env.logf("KEY %s pat=%s a0=%s", what.c_str(), pats.c_str(), sha_hex(e.a0.data(), e.a0.size(), 8).c_str());
        if (roundtrip) key_decrypts(k, prop, what);
    }

    // C12: if the key lists an element for a slot the accumulated pattern says is hidden, show that the slot can be filled:
    // qualify it with a value there and open a ciphertext in which that slot is set.
    void demonstrate_fillable_hidden_slot(KeyM& k, const std::string& what) {
        if (k.rho.is_zero()) return;   // scripted randomness 0: the key is the bare master secret and opens everything (exempt from negative oracles)
        int l = R.jv_wk_sk_l(k.sk);
        for (int i = 0; i < l; i++) {
            uint32_t idx = R.jv_wk_sk_bidx(k.sk, i);
            if (idx >= (uint32_t) sys.l || k.pat[idx].st != ST_HIDDEN) continue;
            std::vector<MAttr> L = list_of_pattern(k.pat); L.push_back({idx, Bn(6), false});
            std::sort(L.begin(), L.end(), [](const MAttr& a, const MAttr& b) { return a.idx < b.idx; });
            JAttrs ja(L, false); KeyM child = newkey((size_t) sys.l + 1);
            call_begin(1); R.jv_wk_nd_qualifykey(view, child.sk, sys.params, k.sk, &ja.l);
            GTv m, out; call_begin(77); R.jv_wk_random_gt(view, m.b, jv_rand_cb);
            Buf ct(R.sz(JV_SZ_WK_CT)); call_begin(78); R.jv_wk_encrypt(view, ct, m.b, sys.params, &ja.l, jv_rand_cb);
            env.lib_calls++; R.jv_wk_decrypt(view, out.b, ct, child.sk);
            if (w.ct(out) == w.ct(m)) env.fail("C12", "hidden-slot-cannot-be-filled", strf("%s: the key for pattern %s still carries an element for hidden slot %u; nondelegable_qualifykey with a value there yields a key that opens a ciphertext for %s", what.c_str(), pat_str(k.pat).c_str(), idx, list_str(L).c_str()));
        }
    }

    // the key (and the master key) decrypt a fresh ciphertext for exactly the accumulated pattern
    void key_decrypts(KeyM& k, const char* prop, const std::string& what) {
        uint64_t ss = mix3(plan.c("setup_seed"), (uint64_t) env.step, 0x777);
        GTv m; call_begin(ss); R.jv_wk_random_gt(view, m.b, jv_rand_cb);
        std::vector<MAttr> L = list_of_pattern(k.pat, (env.step & 1) != 0); JAttrs ja(L, false);
        Buf ct(R.sz(JV_SZ_WK_CT)); call_begin(ss + 1); R.jv_wk_encrypt(view, ct, m.b, sys.params, &ja.l, jv_rand_cb);
        GTv out; env.lib_calls++; R.jv_wk_decrypt(view, out.b, ct, k.sk);
        env.soft(w.ct(out) == w.ct(m), prop, "key:decrypts-own-pattern", strf("%s: key for pattern %s does not decrypt a ciphertext encrypted to %s", what.c_str(), pat_str(k.pat).c_str(), list_str(L).c_str()));
        env.lib_calls++; R.jv_wk_decrypt_master(view, out.b, ct, sys.msk);
        env.soft(w.ct(out) == w.ct(m), prop, "master-decrypts", what + ": master key does not decrypt a ciphertext encrypted under the parameters");
        // pairing equation through the library's own product routine: e(a0,g) = e(g2,g1) * e(P,a1)
        G1v P = sys.prod(w, exps_of_pattern(k.pat));
        GTv lhs = w.pair(w.field<G1v>(JV_OK_WK_SK, k.sk, JV_F_SK_A0), sys.g);
        GTv rhs = w.gtmul(sys.pairing, w.pair(P, w.field<G2v>(JV_OK_WK_SK, k.sk, JV_F_SK_A1)));
        env.soft(w.ct(lhs) == w.ct(rhs), prop, "key:pairing-equation", what + ": e(a0,g) != e(g2,g1)*e(g3*prod h_i^v_i, a1)");
    }

    void setup() {
        sys.l = (int) plan.c("l", 3); sys.sig = plan.c("sig", 1) != 0;
        sys.params.alloc(R.sz(JV_SZ_WK_PARAMS)); if (sys.l) sys.harr.alloc((size_t) sys.l * R.sz(JV_SZ_G1), 0xEE);
        sys.msk.alloc(R.sz(JV_SZ_WK_MSK));
        R.jv_wk_params_init(sys.params, sys.harr.p, sys.l);
        call_begin((uint64_t) plan.c("setup_seed", 1)); env.stream.limit += 4096 + 16 * (size_t) std::max<int64_t>(0, plan.c("l", 0));   // setup draws l + 4 generators, about four requests each
        R.jv_wk_setup(view, sys.params, sys.msk, sys.l, sys.sig, jv_rand_cb);
        sys.alpha = drawn_scalar("setup");
        sys.extract(w);
        env.check(R.jv_wk_params_l(sys.params) == sys.l && (R.jv_wk_params_signatures(sys.params) != 0) == sys.sig, "C11", "setup:l-and-flag", "setup did not record l / signature support");
        env.check(w.c2(sys.g1) == w.c2(w.g2mul(sys.g, sys.alpha)), "C11", "setup:g1", "g1 != g^alpha for the alpha drawn from the stream");
        env.check(w.c1(sys.mskv) == w.c1(w.g1mul(sys.g2, sys.alpha)), "C11", "setup:master-key", "master key != g2^alpha");
        env.check(w.ct(sys.pairing) == w.ct(w.pair(sys.g2, sys.g1)), "C11", "setup:pairing", "params.pairing != e(g2, g1)");
        env.check(w.g1zero_p(sys.hsig) == !sys.sig, "C11", "setup:hsig", "hsig must be the identity exactly when signatures are off");
        env.logf("SETUP l=%d sig=%d g1=%s", sys.l, sys.sig, sha_hex(w.c2(sys.g1).data(), 193, 8).c_str());
    }

    KeyM* pick_key(int64_t h) { if (keys.empty()) return nullptr; return &keys[(size_t) h % keys.size()]; }
    size_t count_free(const std::vector<Slot>& p) { size_t n = 0; for (auto& s : p) if (s.st == ST_FREE) n++; return n; }
    void transition_case(const char* opn, const std::vector<Slot>& from, const std::vector<Slot>& to, bool omit_all, bool nontrivial = true) {
        env.add_case(strf("%s %s->%s oa%d l%d", opn, pat_str(from).c_str(), pat_str(to).c_str(), omit_all, sys.l), nontrivial);
        env.count(std::string("op:") + opn);
    }

    // ------------------------------------------------------------ ops
    void op_keygen(const Op& op) {
        bool omit_all = op.arg(1) != 0, nd = op.arg(2) != 0;
        std::vector<Slot> parent((size_t) sys.l), child; std::vector<MAttr> attrs;
        resolve(parent, op.s, 0, omit_all, attrs, child);
        KeyM k = newkey((size_t) sys.l - attrs.size()); JAttrs ja(attrs, omit_all);
        std::vector<std::string> sf = trailing_faults(op, (size_t) sys.l);
        call_begin((uint64_t) op.arg(0), &sf);
        if (nd) { R.jv_wk_nd_keygen(view, k.sk, sys.params, sys.msk, &ja.l); expect_no_draws("nondelegable_keygen"); k.rho = Bn(1); }
        else { R.jv_wk_keygen(view, k.sk, sys.params, sys.msk, &ja.l, jv_rand_cb); k.rho = drawn_scalar("keygen"); }
        k.pat = child;
        keys.push_back(std::move(k));
        check_key(keys.back(), "C11", std::string(nd ? "nondelegable_keygen" : "keygen") + list_str(attrs) + (omit_all ? "+omitAll" : ""));
        transition_case(nd ? "ndkeygen" : "keygen", parent, child, omit_all);
    }

    void op_qualify(const Op& op) {
        KeyM* pk = pick_key(op.arg(1)); if (!pk || pk->tainted) return;
        size_t pi = (size_t) (pk - &keys[0]);
        bool omit_all = op.arg(2) != 0, nd = op.arg(3) != 0;
        std::vector<Slot> child; std::vector<MAttr> attrs;
        resolve(pk->pat, op.s, 0, omit_all, attrs, child);
        if (attrs.size() > (size_t) sys.l) return;
        KeyM k = newkey((size_t) sys.l - attrs.size()); JAttrs ja(attrs, omit_all);
        std::vector<std::string> sf = trailing_faults(op, (size_t) sys.l);
        call_begin((uint64_t) op.arg(0), &sf);
        if (nd) { R.jv_wk_nd_qualifykey(view, k.sk, sys.params, pk->sk, &ja.l); expect_no_draws("nondelegable_qualifykey"); k.rho = pk->rho; k.ndchild = true; k.ndparent = (int) pi; k.ndlist = attrs; }
        else { R.jv_wk_qualifykey(view, k.sk, sys.params, pk->sk, &ja.l, jv_rand_cb); k.rho = Bn::addmod(pk->rho, drawn_scalar("qualifykey"), K().r); }
        k.pat = child;
        std::vector<Slot> ppat = pk->pat;
        keys.push_back(std::move(k));
        check_key(keys.back(), "C11", std::string(nd ? "nondelegable_qualifykey" : "qualifykey") + " parent " + pat_str(ppat) + " attrs " + list_str(attrs) + (omit_all ? "+omitAll" : ""));
        transition_case(nd ? "ndqualify" : "qualify", ppat, child, omit_all);
        stay_closed_to_previous(keys.back(), ppat, std::string(nd ? "nondelegable_qualifykey" : "qualifykey") + " parent " + pat_str(ppat) + " attrs " + list_str(attrs));
    }

    // ADJUST parent | from-directives (l) then one or more to-directive blocks (l each)
    void op_adjust(const Op& op) {
        hopcache.clear();
        KeyM* pk0 = pick_key(op.arg(0)); if (!pk0 || pk0->tainted || sys.l == 0) return;
        size_t pi = (size_t) (pk0 - &keys[0]);
        std::vector<Slot> cur; std::vector<MAttr> from;
        // one time in seven the holder narrows its own key in place: the key object is a plain copy of the parent (empty `from` list) and the
        // first adjustment names it as both the key to rewrite and the parent it was derived from
        bool inplace = ((op.arg(0) >> 2) % 7) == 0 && op.s.size() >= 2 * (size_t) sys.l;
        { std::vector<std::string> blank; if (inplace) blank.assign((size_t) sys.l, "-"); resolve(keys[pi].pat, inplace ? blank : op.s, 0, false, from, cur); }
        size_t pl = count_free(keys[pi].pat);
        KeyM k = newkey(std::max((size_t) sys.l - from.size(), pl));
        // one time in six the key to be adjusted was derived with the omit-all flag: same a0/a1, no free-slot entries at all. The adjustment
        // (whose lists do not carry the flag) must still produce the key for `to`, free slots included - it may not rely on what sk.b held.
        bool start_omit_all = ((op.arg(0) >> 5) % 6) == 0 && !inplace;
        { JAttrs ja(from, start_omit_all); call_begin(1); R.jv_wk_nd_qualifykey(view, k.sk, sys.params, keys[pi].sk, &ja.l); }
        if (start_omit_all) { for (auto& sl : cur) if (sl.st == ST_FREE) sl.st = ST_HIDDEN; env.count("probe:adjusted_key_was_derived_with_omit_all"); }
        k.rho = keys[pi].rho; k.pat = cur; k.ndchild = true; k.ndparent = (int) pi; k.ndlist = from;
        keys.push_back(std::move(k)); size_t ki = keys.size() - 1;
        check_key(keys[ki], "C11", "nondelegable_qualifykey(before adjust) parent " + pat_str(keys[pi].pat) + " attrs " + list_str(from), false);
        size_t blocks = op.s.size() / (size_t) sys.l;
        for (size_t b = 1; b < blocks; b++) {
            std::vector<Slot> nxt; std::vector<MAttr> to;
            // one block in four re-uses the directives of the previous block with the highest entry on a parent-free slot dropped: the target
            // list is then the current list minus its tail entry - a path and its prefix, held by the caller as two views of one array
            std::vector<std::string> alt;
            if (((op.arg(0) >> 8) + (int64_t) b) % 4 == 0) {
                alt = op.s; size_t l = (size_t) sys.l;
                for (size_t i = 0; i < l; i++) alt[b * l + i] = op.s[(b - 1) * l + i];
                if (((op.arg(0) >> 3) + (int64_t) b) % 3 != 0)   // (one such block in three keeps the list exactly as it is: adjusting to the same list)
                for (size_t i = l; i-- > 0;) { const std::string& t = alt[b * l + i]; if (keys[pi].pat[i].st == ST_FREE && (t.compare(0, 2, "f:") == 0 || t[0] == 'h')) { alt[b * l + i] = "-"; break; } }
            }
            // one target list in five carries the omit-all switch: the key it describes - the one nondelegable_qualifykey(parent, to) gives - has
            // no free slot at all (every unnamed slot is hidden), and the adjusted key must be that key
            bool to_flag = (((op.arg(0) >> 9) + (int64_t) b * 3) % 5) == 0; if (to_flag) env.count("fault:adjust_target_list_carries_omit_all_switch");
            resolve(keys[pi].pat, alt.empty() ? op.s : alt, b * (size_t) sys.l, to_flag, to, nxt);
            // the Go wrapper reallocates the slot array to the parent's count before the call; a C caller that knows what the target list leaves
            // free may hand over an array of exactly that many entries (one step in four) - nothing beyond the final count may be written
            KeyM& kk = keys[ki];
            { size_t fs = R.sz(JV_SZ_WK_FREESLOT), want = pl; bool exact = (((op.arg(0) >> 7) + (int64_t) b) % 4) == 0 && !(inplace && b == 1);
              if (exact) { want = count_free(nxt); env.count("fault:adjust_destination_array_has_exactly_the_final_slot_count"); }
              if (exact || kk.cap < pl) { kk.cap = want; kk.cap_alloc = R.info.sanitized ? want : want + 2; kk.barr.alloc(std::max<size_t>(1, kk.cap_alloc) * fs, 0xEE); R.jv_wk_sk_set_barray(kk.sk, kk.barr.p); } }
            // (the list the key was derived with may have carried the omit-all switch; it says nothing about the target and changes nothing here)
            // a list and the one it is adjusted to are often a copy of one another with single entries edited: half of the time a hidden entry
            // carries, in its meaningless id field, the value the other list gives that slot (only the flag was flipped)
            std::vector<MAttr> fromL2 = kk.ndlist;
            if ((((op.arg(0) >> 4) + (int64_t) b) & 1) == 0) {
                bool any = false;
                for (auto& t2 : to) for (auto& f2 : fromL2) if (t2.idx == f2.idx && t2.omit != f2.omit) { if (t2.omit) t2.id = f2.id; else f2.id = t2.id; any = true; }
                if (any) env.count("fault:hidden_entry_keeps_the_value_of_the_copied_entry");
            }
            { bool from_flag = ((op.arg(0) >> 1) + (int64_t) b) % 3 == 0; if (from_flag) env.count("fault:adjust_from_list_carries_omit_all_switch");
              JAttrs jf(fromL2, from_flag), jt(to, to_flag); if (jf.share_array_with(jt) || jt.share_array_with(jf)) env.count("fault:from_and_to_lists_are_views_of_one_array");
              bool self = inplace && b == 1 && kk.ndlist.empty(); if (self) env.count("fault:adjust_in_place_key_is_its_own_parent");
              // when the two lists are equal entry for entry, the caller may well hold ONE list object and pass it twice
              bool same_obj = !from_flag && !to_flag && jf.a.size() == jt.a.size() && (jf.a.empty() || memcmp(jf.a.data(), jt.a.data(), jf.a.size() * sizeof(jv_attr)) == 0) && (((op.arg(0) >> 6) + (int64_t) b) & 1);
              if (same_obj) env.count("fault:adjust_from_and_to_are_the_same_list_object");
              call_begin(1); R.jv_wk_adjust_nd(view, kk.sk, self ? kk.sk : keys[pi].sk, &jf.l, same_obj ? &jf.l : &jt.l); expect_no_draws("adjust_nondelegable"); }
            std::vector<Slot> before = kk.pat; std::vector<MAttr> fromL = kk.ndlist;
            kk.pat = nxt; kk.ndlist = to;
            for (auto& a : fromL) if (a.id >= K().r) env.count("probe:adjust_from_id_ge_r");
            for (auto& a : fromL) if (a.omit) env.count("probe:adjust_from_has_hidden_entry");
            for (auto& a : to) if (a.omit) env.count("probe:adjust_to_has_hidden_entry");
            // a wrong adjusted key breaks C14 (incremental = from scratch) and C11 (every key of a history incl. adjustment steps is well-formed)
            check_key(kk, env.focus == "C11" ? "C11" : "C14", "adjust_nondelegable parent " + pat_str(keys[pi].pat) + " from " + list_str(fromL) + " to " + list_str(to), b + 1 == blocks);
            transition_case("adjustnd", before, nxt, false);
            stay_closed_to_previous(kk, before, "adjust_nondelegable from " + list_str(fromL) + " to " + list_str(to));
            if (b > 1) env.count("probe:adjust_chain_step");
        }
    }

    // C12, after a key-producing step: the new key must stay closed to a ciphertext for the pattern it came from (the parent's, or
    // the list it was adjusted away from) whenever the two patterns differ modulo r. A step that leaves a removed attribute inside a0,
    // or forgets to fold a newly fixed one in, opens exactly that ciphertext.
    void stay_closed_to_previous(KeyM& k, const std::vector<Slot>& prev, const std::string& what) {
        if (!(env.focus.empty() || env.focus == "C12") || k.tainted || k.rho.is_zero()) return;
        if (exps_equal(exps_of_pattern(prev), exps_of_pattern(k.pat))) return;
        std::vector<MAttr> L = list_of_pattern(prev); JAttrs ja(L, false);
        GTv m, out; call_begin(mix3((uint64_t) plan.c("setup_seed"), (uint64_t) env.step, 0x12A)); R.jv_wk_random_gt(view, m.b, jv_rand_cb);
        Buf ct(R.sz(JV_SZ_WK_CT)); call_begin(mix3((uint64_t) plan.c("setup_seed"), (uint64_t) env.step, 0x12B)); R.jv_wk_encrypt(view, ct, m.b, sys.params, &ja.l, jv_rand_cb);
        env.lib_calls++; R.jv_wk_decrypt(view, out.b, ct, k.sk);
        env.count("probe:new_key_tried_on_ciphertext_for_previous_pattern");
        if (w.ct(out) == w.ct(m)) env.fail("C12", "decrypt:non-matching-key-must-not-open", strf("%s: the resulting key (pattern %s) still opens a ciphertext for the pattern it came from (%s)", what.c_str(), pat_str(k.pat).c_str(), pat_str(prev).c_str()));
    }

    // The precomputed product for list L as a deployment holds it: computed directly, or - every other time - kept from an
    // earlier list and adjusted to L (one step from a neighbour list, or a chain through the empty list). The property makes
    // the two interchangeable for everything that consumes a precomputed value.
    // how the caller wrote an order-free list down (see JAttrs): ascending half of the time
    uint64_t list_order(uint64_t salt) { uint64_t h = mix3((uint64_t) plan.c("setup_seed"), (uint64_t) env.step, salt); int k = (int) (h % 4); if (k >= 2) env.count(k == 2 ? "fault:list_written_in_descending_slot_order" : "fault:list_written_in_arbitrary_slot_order"); return k < 2 ? 0 : k == 2 ? 1 : 2 + (h >> 8) % 1000; }
    // the omit-all switch concerns key derivation only; encrypt / precompute / sign / verify never look at it, so a list that carries it (a caller
    // re-using the list object it derived a key with) must behave exactly like one that does not
    bool idle_flag(uint64_t salt) { bool f = mix3((uint64_t) plan.c("setup_seed"), (uint64_t) env.step * 7 + 3, salt) % 4 == 0; if (f) env.count("fault:omit_all_switch_set_on_a_list_for_a_call_that_ignores_it"); return f; }
    void make_pre(Buf& pre, const std::vector<MAttr>& L) {
        JAttrs ja(L, idle_flag(0x60), false, list_order(0x50)); env.lib_calls++;
        int how = (int) ((env.lib_calls + (uint64_t) env.step) % 4);
        if (how == 0 || how == 2) { R.jv_wk_precompute(view, pre, sys.params, &ja.l); return; }
        std::vector<MAttr> from = L;
        if (!from.empty() && how == 1) { if (from.size() > 1 && (env.step & 1)) from.erase(from.begin() + (long) (from.size() / 2)); else from[0].id = Bn::mod(Bn::add(from[0].id, Bn(3)), K().two256); }
        else { std::vector<bool> used((size_t) sys.l + 1, false); for (auto& a : L) if (a.idx < used.size()) used[a.idx] = true; from.clear(); for (int i = sys.l - 1; i >= 0; i--) if (!used[i]) { from.push_back({(uint32_t) i, Bn(7), false}); break; } }   // how == 3 (or empty L): from a list with another slot
        JAttrs jf(from, false); R.jv_wk_precompute(view, pre, sys.params, &jf.l); env.lib_calls++;
        if (how == 3 && !from.empty()) { std::vector<MAttr> none; JAttrs jn(none, false); R.jv_wk_adjust_precomputed(view, pre, sys.params, &jf.l, &jn.l); R.jv_wk_adjust_precomputed(view, pre, sys.params, &jn.l, &ja.l); env.count("probe:precomputed_value_obtained_by_adjustment_chain"); }
        else { R.jv_wk_adjust_precomputed(view, pre, sys.params, &jf.l, &ja.l); env.count("probe:precomputed_value_obtained_by_adjustment"); }
    }

    void op_resample(const Op& op) {
        KeyM* pk = pick_key(op.arg(1)); if (!pk || pk->tainted) return;
        bool further = op.arg(2) != 0;
        std::vector<MAttr> L = list_of_pattern(pk->pat, (op.arg(0) & 1) != 0); JAttrs ja(L, false);
        Buf pre(R.sz(JV_SZ_WK_PRE)); make_pre(pre, L);
        size_t pl = count_free(pk->pat);
        KeyM k = newkey(further ? pl : 0);
        // one time in six the destination is a copy of the source key's struct - `fresh = old;` - so the two objects share one slot array: the call
        // re-randomises the elements where they are (the old key object is spent afterwards)
        bool shallow = further && pl > 0 && ((op.arg(0) >> 3) % 6) == 0 && pk->barr.p && R.jv_wk_sk_barray(pk->sk) == (void*) pk->barr.p;
        if (shallow) { k = KeyM(); k.sk.alloc(R.sz(JV_SZ_WK_SK)); memcpy(k.sk.p, pk->sk.p, k.sk.n); k.cap = pk->cap; k.cap_alloc = pk->cap_alloc; env.count("fault:destination_key_is_a_struct_copy_sharing_the_source_slot_array"); }
        std::vector<std::string> sf = trailing_faults(op, 0);
        call_begin((uint64_t) op.arg(0), &sf); R.jv_wk_resamplekey(view, k.sk, sys.params, pre, pk->sk, further, jv_rand_cb);
        if (shallow) { pk->tainted = true; k.barr = std::move(pk->barr); hopcache.clear();
            // the spent object gets an array of its own again (a copy of what the shared one holds now): from here on the two objects have separate lifetimes in the harness
            Buf cp(k.barr.n); memcpy(cp.p, k.barr.p, k.barr.n); pk->barr = std::move(cp); R.jv_wk_sk_set_barray(pk->sk, pk->barr.p); }   // (the spent key's bytes changed under it: cached marshalled forms are stale)   // the array now belongs to the new key (the spent object still points at it; the harness keeps it alive through the new owner)
        k.rho = Bn::addmod(pk->rho, drawn_scalar("resamplekey"), K().r);
        k.pat = pk->pat; if (!further) for (auto& s : k.pat) if (s.st == ST_FREE) s.st = ST_HIDDEN;
        std::vector<Slot> ppat = pk->pat;
        keys.push_back(std::move(k));
        check_key(keys.back(), "C11", strf("resamplekey(further=%d) of pattern %s", further, pat_str(ppat).c_str()));
        transition_case(further ? "resample+" : "resample-", ppat, keys.back().pat, false);
    }

    G1v expected_prodexp(const std::vector<MAttr>& L) { return sys.prod(w, exps_of_list(L, sys.l)); }

    void op_precomp(const Op& op) {
        KeyM* pk = pick_key(op.arg(0)); std::vector<Slot> pat = pk ? pk->pat : std::vector<Slot>((size_t) sys.l);
        PreM p; p.list = derive_list(pat, op.arg(1)); p.pre.alloc(R.sz(JV_SZ_WK_PRE));
        JAttrs ja(p.list, false, false, list_order(0x53)); env.lib_calls++; R.jv_wk_precompute(view, p.pre, sys.params, &ja.l);
        env.soft(w.c1(w.field<G1v>(JV_OK_WK_PRE, p.pre, 0)) == w.c1(expected_prodexp(p.list)), "C14", "precompute:value", "precompute(" + list_str(p.list) + ") != g3*prod h_i^a_i");
        env.logf("PRECOMP %s", list_str(p.list).c_str());
        env.add_case("precomp " + std::to_string(p.list.size()), false);
        pres.push_back(std::move(p));
    }

    void op_adjpre(const Op& op) {
        if (pres.empty()) return;
        PreM& p = pres[(size_t) op.arg(0) % pres.size()];
        KeyM* pk = pick_key(op.arg(1)); std::vector<Slot> pat = pk ? pk->pat : std::vector<Slot>((size_t) sys.l);
        std::vector<MAttr> to = derive_list(pat, op.arg(2));
        // one time in four the target is the current list with its tail dropped or with a higher slot appended: a path and its prefix
        if ((op.arg(2) >> 16) % 4 == 0) { to = p.list; if (!to.empty() && ((op.arg(2) >> 18) & 1)) to.resize(to.size() - 1 - (size_t) ((op.arg(2) >> 19) % to.size()) % to.size()); else { uint32_t top = to.empty() ? 0 : to.back().idx + 1; if ((int) top < sys.l) to.push_back({top + (uint32_t) ((op.arg(2) >> 19) % (uint32_t) (sys.l - (int) top)), Bn(3 + (uint64_t) (op.arg(2) & 7)), false}); } }
        JAttrs jf(p.list, false), jt(to, false); env.lib_calls++;
        // ... which such a caller holds as two views over one array of entries
        if (jf.share_array_with(jt) || jt.share_array_with(jf)) env.count("fault:from_and_to_lists_are_views_of_one_array");
        R.jv_wk_adjust_precomputed(view, p.pre, sys.params, &jf.l, &jt.l);
        for (auto& a : p.list) if (a.id >= K().r) env.count("probe:adjust_precomputed_from_id_ge_r");
        for (auto& a : to) if (a.id >= K().r) env.count("probe:adjust_precomputed_to_id_ge_r");
        if (p.list.empty() != to.empty()) env.count("probe:adjust_precomputed_empty_vs_nonempty");
        std::string was = list_str(p.list);
        env.add_case(strf("adjpre %s->%s", was.c_str(), list_str(to).c_str()), true);
        p.list = to;
        env.soft(w.c1(w.field<G1v>(JV_OK_WK_PRE, p.pre, 0)) == w.c1(expected_prodexp(to)), "C14", "adjust_precomputed:equals-precompute", "adjust_precomputed from " + was + " to " + list_str(to) + " differs from precompute(to)");
        env.logf("ADJPRE %s -> %s", was.c_str(), list_str(to).c_str());
    }

    void op_enc(const Op& op) {
        KeyM* pk = pick_key(op.arg(1)); std::vector<Slot> pat = pk ? pk->pat : std::vector<Slot>((size_t) sys.l);
        std::vector<MAttr> L = derive_list(pat, op.arg(2)); JAttrs ja(L, idle_flag(0x61), false, list_order(0x51));
        CtM c; c.ct.alloc(R.sz(JV_SZ_WK_CT)); c.exps = exps_of_list(L, sys.l);
        uint64_t ss = (uint64_t) op.arg(0);
        call_begin(ss ^ 0x5555); R.jv_wk_random_gt(view, c.msg.b, jv_rand_cb);
        std::vector<std::string> sf(op.s.begin(), op.s.end());
        call_begin(ss, &sf); R.jv_wk_encrypt(view, c.ct, c.msg.b, sys.params, &ja.l, jv_rand_cb);
        Bn s = drawn_scalar("encrypt");
        // s = 0 is a legal (probability 2^-255) output of the sampler; the resulting ciphertext is (m, 1, 1) and opens for
        // everybody by construction of the scheme. The negative oracles of C12 do not apply to it.
        if (s.is_zero()) { c.degenerate = true; env.count("probe:encryption_randomness_zero"); }
        // expected ciphertext, component for component
        G1v P = expected_prodexp(L);
        env.soft(w.ct(w.field<GTv>(JV_OK_WK_CT, c.ct, JV_F_CT_A)) == w.ct(w.gtmul(w.gtpow(sys.pairing, s), c.msg)), "C11", "encrypt:A", "ciphertext A != e(g2,g1)^s * m for the s drawn");
        env.soft(w.c2(w.field<G2v>(JV_OK_WK_CT, c.ct, JV_F_CT_B)) == w.c2(w.g2mul(sys.g, s)), "C11", "encrypt:B", "ciphertext B != g^s");
        env.soft(w.c1(w.field<G1v>(JV_OK_WK_CT, c.ct, JV_F_CT_C)) == w.c1(w.g1mul(P, s)), "C11", "encrypt:C", "ciphertext C != (g3*prod h_i^a_i)^s for list " + list_str(L));
        // C14: the precomputed path is interchangeable (same stream => byte-identical ciphertext)
        if (op.arg(3)) {
            Buf pre(R.sz(JV_SZ_WK_PRE)), ct2(R.sz(JV_SZ_WK_CT)); make_pre(pre, L);
            call_begin(ss, &sf); R.jv_wk_encrypt_precomputed(view, ct2, c.msg.b, sys.params, pre, jv_rand_cb);
            std::vector<uint8_t> b1 = wk_marshal(R, view, JV_OK_WK_CT, c.ct, true), b2 = wk_marshal(R, view, JV_OK_WK_CT, ct2, true);
            env.soft(b1 == b2, "C14", "encrypt_precomputed:interchangeable", "encrypt and encrypt_precomputed with the same random stream give different ciphertexts for " + list_str(L));
            env.count("probe:encrypt_vs_encrypt_precomputed_compared");
        }
        env.logf("ENC %s ct=%s", list_str(L).c_str(), sha_hex(w.c1(w.field<G1v>(JV_OK_WK_CT, c.ct, JV_F_CT_C)).data(), 97, 8).c_str());
        env.add_case("enc " + list_str(L).substr(0, 40), !op.s.empty());
        cts.push_back(std::move(c));
    }

    void op_dec(const Op& op) {
        if (cts.empty()) return; KeyM* pk = pick_key(op.arg(1)); if (!pk) return;
        CtM& c = cts[(size_t) op.arg(0) % cts.size()];
        GTv out; env.lib_calls++; R.jv_wk_decrypt(view, out.b, c.ct, pk->sk);
        bool opens = w.ct(out) == w.ct(c.msg), should = exps_equal(exps_of_pattern(pk->pat), c.exps);
        env.logf("DEC opens=%d should=%d", opens, should);
        if (!pk->tainted && !c.tainted && should && !opens) env.soft(false, "C11", "decrypt:matching-key-opens", "key for pattern " + pat_str(pk->pat) + " failed to decrypt a ciphertext for the same attribute values");
        // a key whose randomness is 0 mod r (reachable only through a scripted stream: e.g. rho = 1 from a non-delegable keygen plus a
        // scripted t = r-1) is the bare master secret and opens everything by construction of the scheme; not a negative-oracle subject
        if (pk->rho.is_zero()) env.count("probe:key_randomness_zero");
        if (!should && opens && !c.degenerate && !pk->rho.is_zero()) env.fail("C12", "decrypt:non-matching-key-must-not-open", strf("key for pattern %s decrypted a ciphertext whose attribute list differs%s", pat_str(pk->pat).c_str(), pk->tainted ? " (key obtained by an attack op)" : ""));
        env.count(should ? "probe:decrypt_matching_pair" : "probe:decrypt_mismatching_pair");
        env.add_case(strf("dec %s should%d", pat_str(pk->pat).c_str(), should), !should);
    }

    void op_decm(const Op& op) {
        if (cts.empty()) return; CtM& c = cts[(size_t) op.arg(0) % cts.size()];
        GTv out; env.lib_calls++; R.jv_wk_decrypt_master(view, out.b, c.ct, sys.msk);
        if (!c.tainted) env.check(w.ct(out) == w.ct(c.msg), "C11", "master-decrypts", "master key failed to decrypt");
    }

    // SIGN sseed key msgcode usepre incompatible | ext directives
    void op_sign(const Op& op) {
        KeyM* pk = pick_key(op.arg(1)); if (!pk || pk->tainted || !sys.sig) return;
        int incompatible = (int) op.arg(4);
        std::vector<Slot> child; std::vector<MAttr> L;
        // extension list: every fixed slot repeated, some free slots fixed (hide directives are ignored for signing)
        std::vector<std::string> toks; for (int i = 0; i < sys.l; i++) { std::string t = (size_t) i < op.s.size() ? op.s[(size_t) i] : "-"; if (t == "h") t = "-"; toks.push_back(t); }
        resolve(pk->pat, toks, 0, false, L, child);
        L.erase(std::remove_if(L.begin(), L.end(), [](const MAttr& a) { return a.omit; }), L.end());
        SigM sg; sg.expect_valid = true;
        if (incompatible) {
            // a list the signer's pattern is not compatible with: change a fixed value, or set a hidden slot
            bool done = false;
            if (incompatible == 1) for (auto& a : L) if (pk->pat[a.idx].st == ST_FIXED && (size_t) a.idx < pk->pat.size()) { a.id = Bn::mod(Bn::add(a.id, Bn(1)), K().two256); done = true; break; }
            if (!done) for (int i = 0; i < sys.l && !done; i++) if (pk->pat[(size_t) i].st == ST_HIDDEN) { L.push_back({(uint32_t) i, Bn(9), false}); done = true; }
            if (!done) return;
            std::sort(L.begin(), L.end(), [](const MAttr& a, const MAttr& b) { return a.idx < b.idx; });
            sg.expect_valid = false; env.count("probe:sign_with_incompatible_list");
        }
        sg.list = L; sg.msg = value_of_code(value_codes()[(size_t) op.arg(2) % value_codes().size()]);
        if (op.arg(2) >= 100) { uint8_t mb[32]; Rng r((uint64_t) op.arg(2)); r.fill(mb, 32); sg.msg = Bn::from_le(mb, 32); }
        uint8_t m32[32]; sg.msg.to_le(m32, 32);
        JAttrs ja(L, idle_flag(0x63)); sg.sig.alloc(R.sz(JV_SZ_WK_SIG));
        uint64_t ss = (uint64_t) op.arg(0);
        std::vector<std::string> sf = trailing_faults(op, (size_t) sys.l);
        call_begin(ss, &sf); R.jv_wk_sign(view, sg.sig, sys.params, pk->sk, &ja.l, m32, jv_rand_cb);
        Bn s = drawn_scalar("sign");
        // total signature randomness rho+s = 0 mod r (scripted streams only) gives (g2^alpha, 1), which verifies for every message
        // and list by construction of the scheme: the negative oracles of C13 do not apply to it
        if (Bn::addmod(pk->rho, s, K().r).is_zero()) { sg.degenerate = true; env.count("probe:signature_randomness_zero"); }
        if (sg.expect_valid) {
            Bn rs = Bn::addmod(pk->rho, s, K().r);
            G1v base = w.g1add(expected_prodexp(L), w.g1mul(sys.hsig, Bn::mod(sg.msg, K().r)));
            env.soft(w.c1(w.field<G1v>(JV_OK_WK_SIG, sg.sig, JV_F_SIG_A0)) == w.c1(w.g1add(sys.mskv, w.g1mul(base, rs))), "C13", "sign:a0", "signature a0 != g2^alpha*(hsig^m*prod)^(rho+s) for list " + list_str(L) + " signer pattern " + pat_str(pk->pat));
            env.soft(w.c2(w.field<G2v>(JV_OK_WK_SIG, sg.sig, JV_F_SIG_A1)) == w.c2(w.g2mul(sys.g, rs)), "C13", "sign:a1", "signature a1 != g^(rho+s)");
        }
        if (op.arg(3)) {   // C14: sign_precomputed interchangeable
            Buf pre(R.sz(JV_SZ_WK_PRE)), sig2(R.sz(JV_SZ_WK_SIG)); make_pre(pre, L);
            // a list that only repeats what the key already fixes need not be passed to sign_precomputed at all ("attrs may be left nil")
            bool only_fixed = true; for (auto& a : L) if ((size_t) a.idx >= pk->pat.size() || pk->pat[a.idx].st != ST_FIXED) only_fixed = false;
            JAttrs jnull(L, false, true);
            if (only_fixed && (ss & 1)) { call_begin(ss, &sf); R.jv_wk_sign_precomputed(view, sig2, sys.params, pk->sk, &jnull.l, pre, m32, jv_rand_cb); env.count("probe:sign_precomputed_with_null_list"); }
            else { call_begin(ss, &sf); R.jv_wk_sign_precomputed(view, sig2, sys.params, pk->sk, &ja.l, pre, m32, jv_rand_cb); }
            env.soft(wk_marshal(R, view, JV_OK_WK_SIG, sg.sig, true) == wk_marshal(R, view, JV_OK_WK_SIG, sig2, true), "C14", "sign_precomputed:interchangeable", "sign and sign_precomputed with the same stream differ for " + list_str(L));
            env.count("probe:sign_vs_sign_precomputed_compared");
            // C13 speaks of every signing entry point: what sign_precomputed produced must verify for its own list and message too
            if (sg.expect_valid) { bool ok2 = verify_both(sg.list, sig2, sg.msg, "signature made by sign_precomputed"); if (!ok2) env.soft(false, env.focus == "C14" ? "C14" : "C13", "verify:accepts-valid", "signature made by sign_precomputed by key " + pat_str(pk->pat) + " on list " + list_str(L) + (only_fixed && (ss & 1) ? " (list passed as NULL)" : "") + " does not verify"); }
        }
        bool ok = verify_both(sg.list, sg.sig, sg.msg, "fresh signature");
        if (sg.expect_valid && !ok) env.soft(false, "C13", "verify:accepts-valid", "signature by key " + pat_str(pk->pat) + " on list " + list_str(L) + " does not verify");
        // a signer whose key randomness is 0 mod r holds the bare master secret (scripted streams only) and can sign under any list
        if (!sg.expect_valid && ok && !sg.degenerate && !pk->rho.is_zero()) env.fail("C13", "verify:rejects-incompatible-signer", "signature made by a key whose pattern " + pat_str(pk->pat) + " is incompatible with list " + list_str(L) + " verifies");
        env.logf("SIGN %s valid=%d ok=%d", list_str(L).c_str(), sg.expect_valid, ok);
        env.add_case(strf("sign %s ext%zu inc%d", pat_str(pk->pat).c_str(), L.size(), incompatible), true);
        sigs.push_back(std::move(sg));
    }

    // verify and verify_precomputed must agree on every signature (C14); returns the verdict
    bool verify_both(const std::vector<MAttr>& L, Buf& sig, const Bn& msg, const std::string& what) {
        uint8_t m32[32]; msg.to_le(m32, 32); JAttrs ja(L, idle_flag(0x62), false, list_order(0x52));
        env.lib_calls += 3;
        int v1 = R.jv_wk_verify(view, sys.params, &ja.l, sig, m32);
        Buf pre(R.sz(JV_SZ_WK_PRE)); make_pre(pre, L);
        int v2 = R.jv_wk_verify_precomputed(view, sys.params, pre, sig, m32);
        env.soft(v1 == v2, "C14", "verify_precomputed:agrees", "verify and verify_precomputed disagree on " + what);
        return v1 != 0;
    }

    void op_verify(const Op& op) {
        if (sigs.empty()) return; SigM& sg = sigs[(size_t) op.arg(0) % sigs.size()]; if (!sg.expect_valid) return;
        int mut = (int) op.arg(1) % 11; std::vector<MAttr> L = sg.list; Bn m = sg.msg; Buf sig = sg.sig; bool expect = true; std::string what;
        size_t pick = (size_t) op.arg(2);
        switch (mut) {
        case 0: what = "unchanged"; break;
        case 1: m = Bn::mod(Bn::add(m, Bn(1)), K().two256); expect = false; what = "message+1"; break;
        case 2: { Bn c = Bn::add(Bn::mod(m, K().r), K().r); if (Bn::mod(m, K().r) == m && c < K().two256) { m = c; what = "message+r (same message mod r)"; env.count("probe:verify_same_message_other_representative"); } else what = "unchanged"; break; }
        case 3: if (!L.empty()) { MAttr& a = L[pick % L.size()]; a.id = Bn::mod(Bn::add(a.id, Bn(1)), K().two256); expect = false; what = "one list value changed"; } break;
        case 4: { std::vector<int> absent; for (int i = 0; i < sys.l; i++) { bool in = false; for (auto& a : L) if ((int) a.idx == i) in = true; if (!in) absent.push_back(i); }
                  if (!absent.empty()) { L.push_back({(uint32_t) absent[pick % absent.size()], Bn(11), (pick & 8) != 0}); std::sort(L.begin(), L.end(), [](const MAttr& a, const MAttr& b) { return a.idx < b.idx; }); expect = false; what = "slot added to the list"; } break; }
        case 5: { std::vector<size_t> nz; for (size_t i = 0; i < L.size(); i++) if (!Bn::mod(L[i].id, K().r).is_zero()) nz.push_back(i); if (!nz.empty()) { L.erase(L.begin() + (long) nz[pick % nz.size()]); expect = false; what = "slot removed from the list"; } break; }
        case 6: { G1v a0 = w.field<G1v>(JV_OK_WK_SIG, sig, JV_F_SIG_A0); w.setfield(JV_OK_WK_SIG, sig, JV_F_SIG_A0, 0, w.g1add(a0, sys.g3)); expect = false; what = "a0 replaced by another valid element"; break; }
        case 7: { G2v a1 = w.field<G2v>(JV_OK_WK_SIG, sig, JV_F_SIG_A1); w.setfield(JV_OK_WK_SIG, sig, JV_F_SIG_A1, 0, w.g2add(a1, sys.g)); expect = false; what = "a1 replaced by another valid element"; break; }
        case 8: { // survives a marshalling hop
            std::vector<uint8_t> b = wk_marshal(R, view, JV_OK_WK_SIG, sig, (pick & 1) != 0); Bytes hb(b.data(), b.size()); Buf s2(R.sz(JV_SZ_WK_SIG));
            env.lib_calls++; int ok = R.jv_wk_unmarshal(view, JV_OK_WK_SIG, s2, hb.p, (pick & 1) != 0, 1);
            env.check(ok == 1, "C15", "signature:unmarshal-own-bytes", "validating unmarshal rejected the library's own signature bytes"); sig = s2; what = "after a marshalling hop"; break; }
        case 10: { // both components raised to the same power k != 1 (k = -1: both inverted): every relation between the two components survives,
                   // the pairing ratio becomes e(g2,g1)^k - a verifier that looks at part of that value, or at it up to sign, lets it through
            static const char* ks[] = {"r-1", "2", "3", "2^64"}; Bn k = Bn::mod(value_of_code(ks[pick % 4]), K().r); if ((pick >> 2) & 1) k = Bn::sub(K().r, k);
            if (k == Bn(1) || k.is_zero()) k = Bn(2);
            G1v a0 = w.field<G1v>(JV_OK_WK_SIG, sig, JV_F_SIG_A0); G2v a1 = w.field<G2v>(JV_OK_WK_SIG, sig, JV_F_SIG_A1);
            w.setfield(JV_OK_WK_SIG, sig, JV_F_SIG_A0, 0, w.g1mul(a0, k)); w.setfield(JV_OK_WK_SIG, sig, JV_F_SIG_A1, 0, w.g2mul(a1, k));
            expect = false; what = "both components raised to the power " + (k == Bn::sub(K().r, Bn(1)) ? std::string("-1 (inverted)") : k.hexstr(8)); env.count("fault:signature_components_raised_to_a_common_power"); break; }
        case 9: { // one coordinate field of the signature object perturbed (x, y or z of a0 or a1; for a1 one half of the quadratic-extension
                  // coordinate), on the object as sign left it (random z) or on one that came through unmarshal (z exactly 1): the perturbed
                  // triple represents another point (off the curve, in all but a negligible fraction of cases)
            if (pick & 16) { std::vector<uint8_t> b = wk_marshal(R, view, JV_OK_WK_SIG, sig, (pick & 32) != 0); Bytes hb(b.data(), b.size()); Buf s2(R.sz(JV_SZ_WK_SIG)); env.lib_calls++; if (R.jv_wk_unmarshal(view, JV_OK_WK_SIG, s2, hb.p, (pick & 32) != 0, 1) != 1) return; sig = s2; }
            int ek = 0; bool g2side = (pick & 1) != 0; size_t coord = (pick >> 1) % 3, half = g2side ? (pick >> 3) & 1 : 0;
            uint8_t* f = (uint8_t*) R.jv_field(JV_OK_WK_SIG, sig, g2side ? JV_F_SIG_A1 : JV_F_SIG_A0, 0, &ek) + (g2side ? coord * 96 + half * 48 : coord * 48);
            f[(op.arg(0) >> 6) % 47] ^= (uint8_t) (1u << (op.arg(0) & 7));   // (byte 47 is left alone: the stored value stays below q)
            expect = false; what = strf("%s.%c%s of the %s signature object perturbed", g2side ? "a1" : "a0", "xyz"[coord], g2side ? (half ? ".c1" : ".c0") : "", (pick & 16) ? "unmarshalled" : "fresh"); env.count("fault:signature_coordinate_field_perturbed"); break; }
        }
        if (what.empty()) return;
        bool ok = verify_both(L, sig, m, what);
        env.logf("VERIFY %s expect=%d ok=%d", what.c_str(), expect, ok);
        if (expect && !ok) env.soft(false, "C13", "verify:accepts-valid", "valid signature rejected (" + what + ")");
        if (!expect && ok && !sg.degenerate) env.fail("C13", "verify:rejects-altered", "verification succeeded although " + what + "; signed list " + list_str(sg.list));
        env.count(std::string("fault:verify_") + (expect ? "unaltered" : "altered"));
        env.add_case(strf("verify mut%d n%zu", mut, L.size()), !expect);
    }

    // ATTACK sseed key how valcode : try to fill a hidden slot through the public API
    void op_attack(const Op& op) {
        KeyM* pk = pick_key(op.arg(1)); if (!pk || pk->tainted || pk->rho.is_zero()) return;
        size_t pi = (size_t) (pk - &keys[0]);
        int hidden = -1; size_t skip = (size_t) op.arg(4);
        // target: a hidden slot (to be given a value) or a fixed slot (to be given ANOTHER value) - neither has a delegation element in the key
        std::vector<int> hs; for (int i = 0; i < sys.l; i++) if (pk->pat[(size_t) i].st == ST_HIDDEN || pk->pat[(size_t) i].st == ST_FIXED) hs.push_back(i);
        if (hs.empty()) return; hidden = hs[skip % hs.size()]; bool refix = pk->pat[(size_t) hidden].st == ST_FIXED;
        Bn v = value_of_code(value_codes()[(size_t) op.arg(3) % value_codes().size()]); if (Bn::mod(v, K().r).is_zero()) v = Bn(6);
        if (refix && Bn::mod(v, K().r) == Bn::mod(pk->pat[(size_t) hidden].v, K().r)) v = Bn::mod(Bn::add(v, Bn(1)), K().r);
        if (refix && Bn::mod(v, K().r) == Bn::mod(pk->pat[(size_t) hidden].v, K().r)) return;
        int how = (int) op.arg(2) % 4;
        // attack list: every fixed slot repeated, the target slot given the (new) value
        std::vector<MAttr> L = list_of_pattern(pk->pat);
        if (refix) { for (auto& a : L) if ((int) a.idx == hidden) a.id = v; env.count("fault:attack_refix_fixed_slot"); } else L.push_back({(uint32_t) hidden, v, false});
        std::sort(L.begin(), L.end(), [](const MAttr& a, const MAttr& b) { return a.idx < b.idx; });
        JAttrs ja(L, false);
        KeyM k = newkey((size_t) sys.l + 1); k.tainted = true; k.pat = pk->pat; k.rho = pk->rho;
        const char* hn = "";
        if (how == 0) { hn = "qualifykey"; call_begin((uint64_t) op.arg(0)); R.jv_wk_qualifykey(view, k.sk, sys.params, pk->sk, &ja.l, jv_rand_cb); }
        else if (how == 1) { hn = "nondelegable_qualifykey"; call_begin(1); R.jv_wk_nd_qualifykey(view, k.sk, sys.params, pk->sk, &ja.l); }
        else if (how == 2) {
            hn = "adjust_nondelegable";
            std::vector<MAttr> from = list_of_pattern(pk->pat); JAttrs jf(from, false);
            call_begin(1); R.jv_wk_nd_qualifykey(view, k.sk, sys.params, pk->sk, &jf.l);
            call_begin(1); R.jv_wk_adjust_nd(view, k.sk, pk->sk, &jf.l, &ja.l);
        } else {
            hn = "resample-then-qualifykey";
            std::vector<MAttr> from = list_of_pattern(pk->pat); JAttrs jf(from, false);
            Buf pre(R.sz(JV_SZ_WK_PRE)); env.lib_calls++; R.jv_wk_precompute(view, pre, sys.params, &jf.l);
            KeyM mid = newkey((size_t) sys.l + 1);
            call_begin((uint64_t) op.arg(0) + 9); R.jv_wk_resamplekey(view, mid.sk, sys.params, pre, pk->sk, true, jv_rand_cb);
            call_begin((uint64_t) op.arg(0)); R.jv_wk_qualifykey(view, k.sk, sys.params, mid.sk, &ja.l, jv_rand_cb);
        }
        check_canary(k, hn);
        // a ciphertext in which the hidden slot is set must stay closed to whatever came out
        GTv m, out; call_begin((uint64_t) op.arg(0) + 3); R.jv_wk_random_gt(view, m.b, jv_rand_cb);
        Buf ct(R.sz(JV_SZ_WK_CT)); call_begin((uint64_t) op.arg(0) + 4); R.jv_wk_encrypt(view, ct, m.b, sys.params, &ja.l, jv_rand_cb);
        env.lib_calls++; R.jv_wk_decrypt(view, out.b, ct, k.sk);
        env.count(std::string("fault:attack_fill_hidden_via_") + hn);
        env.logf("ATTACK %s slot %d opens=%d", hn, hidden, w.ct(out) == w.ct(m));
        if (w.ct(out) == w.ct(m)) env.fail("C12", "hidden-slot-cannot-be-filled", strf("%s applied to a key with pattern %s and list %s produced a key that decrypts a ciphertext in which %s slot %d is set%s", hn, pat_str(keys[pi].pat).c_str(), list_str(L).c_str(), refix ? "fixed" : "hidden", hidden, refix ? " to another value" : ""));
        env.add_case(strf("attack %s %s slot%d", hn, pat_str(keys[pi].pat).c_str(), hidden), true);
    }

    // TAMPERCT ct field key : replace one ciphertext component by a different valid element
    void op_tamperct(const Op& op) {
        if (cts.empty()) return; CtM& c0 = cts[(size_t) op.arg(0) % cts.size()]; if (c0.tainted || c0.degenerate) return;
        // find a key that opens it (or use the master key)
        KeyM* opener = nullptr; for (auto& k : keys) if (!k.tainted && !k.rho.is_zero() && exps_equal(exps_of_pattern(k.pat), c0.exps)) { opener = &k; break; }   // a key with scripted randomness 0 is the bare master secret: it does not read C (degenerate-randomness exemption, DESIGN 11/FA3)
        Buf ct = c0.ct; int f = (int) op.arg(1) % 3; const char* fn[] = {"A", "B", "C"};
        if (f == 0) { GTv a = w.field<GTv>(JV_OK_WK_CT, ct, JV_F_CT_A); w.setfield(JV_OK_WK_CT, ct, JV_F_CT_A, 0, w.gtmul(a, sys.pairing)); }
        else if (f == 1) { G2v b = w.field<G2v>(JV_OK_WK_CT, ct, JV_F_CT_B); w.setfield(JV_OK_WK_CT, ct, JV_F_CT_B, 0, w.g2add(b, sys.g)); }
        else { G1v cc = w.field<G1v>(JV_OK_WK_CT, ct, JV_F_CT_C); w.setfield(JV_OK_WK_CT, ct, JV_F_CT_C, 0, w.g1add(cc, sys.g3)); }
        GTv out; env.lib_calls++;
        if (opener) R.jv_wk_decrypt(view, out.b, ct, opener->sk); else R.jv_wk_decrypt_master(view, out.b, ct, sys.msk);
        env.count(std::string("fault:ciphertext_component_replaced_") + fn[f]);
        // C replaced is invisible to the master key (it does not use C); only judge what the decryptor reads
        bool reads = opener != nullptr || f != 2;
        env.logf("TAMPERCT %s same=%d", fn[f], w.ct(out) == w.ct(c0.msg));
        if (reads && w.ct(out) == w.ct(c0.msg)) env.fail("C12", "ciphertext-component-altered", strf("replacing ciphertext component %s by a different valid element did not change the decryption result", fn[f]));
        env.add_case(strf("tamperct %s opener%d", fn[f], opener != nullptr), true);
    }

    void op_hop(const Op& op);   // in wkd_hop.inc (C15/C17 oracles)
    static Op gen_hop(Rng& r);

    void run() {
        setup();
        for (size_t i = 0; i < plan.ops.size(); i++) {
            const Op& op = plan.ops[i]; env.step = (int) i + 1;
            if (op.kind == "KEYGEN") op_keygen(op);
            else if (op.kind == "QUALIFY") op_qualify(op);
            else if (op.kind == "ADJUST") op_adjust(op);
            else if (op.kind == "RESAMPLE") op_resample(op);
            else if (op.kind == "PRECOMP") op_precomp(op);
            else if (op.kind == "ADJPRE") op_adjpre(op);
            else if (op.kind == "ENC") op_enc(op);
            else if (op.kind == "DEC") op_dec(op);
            else if (op.kind == "DECM") op_decm(op);
            else if (op.kind == "SIGN") op_sign(op);
            else if (op.kind == "VERIFY") op_verify(op);
            else if (op.kind == "ATTACK") op_attack(op);
            else if (op.kind == "TAMPERCT") op_tamperct(op);
            else if (op.kind == "HOP") op_hop(op);
            if (tl_list_modified) { std::string m = tl_list_modified; tl_list_modified = nullptr; env.fail("C20", "const-input-written", op.kind + ": " + m + " (the caller's list object is shared with other callers; the library keeps state in it or normalises it in place)"); }
        }
    }
};

#include "wkd_hop.inc"

struct WkdScenario : Scenario {
    const char* name() const override { return "wkd"; }
    int step_offset() const override { return 1; }

    static inline thread_local bool g_wide_directives = false;
    static std::string directive(Rng& r, int bias_hide, int slot = 100) {
        if (g_wide_directives && slot >= 8 && !r.chance(1, 6)) return r.chance(1, 5) ? "-~" : "-";   // wide systems: five slots in six are left as they are
        int k = r.range(0, 9);
        if (k < 4) return "f:" + value_codes()[r.below(value_codes().size())] + (r.chance(1, 3) ? "~" : "");
        if (k < 4 + bias_hide) return r.chance(1, 3) ? "h~" : "h";
        return r.chance(1, 4) ? "-~" : "-";
    }
    static std::vector<std::string> directives(Rng& r, int l, int blocks = 1) {
        std::vector<std::string> v; int bias = r.range(1, 4);
        for (int b = 0; b < blocks; b++) for (int i = 0; i < l; i++) v.push_back(directive(r, bias, i));   // (wide systems: the first eight slots are as busy as in a small system - their partners 32 and 64 slots up exist)
        return v;
    }

    Plan generate(uint64_t seed, const std::map<std::string, int64_t>& knobs) override {
        Rng r(seed); Plan p; p.scenario = name();
        auto kn = [&](const char* k, int64_t d) { auto it = knobs.find(k); return it == knobs.end() ? d : it->second; };
        int l = (int) kn("l", r.range(0, 6)); if (r.chance(1, 12)) l = r.range(7, 9);
        // wide systems: more slots than any fixed-width shortcut (a 64-bit slot bitmap, a one-byte count, a length quotient that is only
        // wrong from 12 entries on) survives; most slots stay free so that keys carry long free-slot arrays
        bool wide = kn("wide", 0) != 0; if (wide) { int w = (int) r.below(4); l = w == 0 ? r.range(12, 23) : w == 1 ? r.range(24, 64) : r.range(65, 80); g_wide_directives = true; }
        p.cfg["l"] = l; p.cfg["sig"] = kn("sig", r.chance(3, 4)); p.cfg["setup_seed"] = (int64_t) (r.next() >> 1);
        if (kn("hopenum", 0)) return generate_hopenum(r, kn("__idx", 0), kn("stride", 1));
        if (kn("hopsizes", 0)) {
            // every slot count once: a system with n slots, the master's delegate key with all n slots free (and one with the first slot fixed),
            // parameters and keys through the store in both forms - whatever a marshalling loop does per batch of k entries meets every residue
            int n = (int) (kn("__idx", 0) % 90); p.cfg["sig"] = (n / 3) % 2;
            // hopsizes = 2: objects whose marshalled form passes 2^16 bytes (654 slots uncompressed, 1259 compressed) and 2^8 / 2^10 entries
            if (kn("hopsizes", 0) == 2) { static const int big[] = {700, 257, 1300, 1024}; n = big[kn("__idx", 0) % 4]; }
            p.cfg["l"] = n;
            std::vector<std::string> none((size_t) n, "-"), one = none; if (n) one[0] = "f:2";
            p.ops.push_back({"KEYGEN", {(int64_t) (r.next() >> 1), 0, 0}, none}); p.ops.push_back({"KEYGEN", {(int64_t) (r.next() >> 1), 0, 0}, one});
            for (int comp = 0; comp < 2; comp++) { p.ops.push_back({"HOP", {2, 0, comp, 1}, {}}); p.ops.push_back({"HOP", {2, 1, comp, (n & 1)}, {}}); p.ops.push_back({"HOP", {0, 0, comp, 1}, {}}); }
            // ... and with one h element replaced by itself plus the point of order 3, at positions i with i = l, l-1, l-2 (mod 3): whatever a validation does per
            // batch, per weighted combination or per position, a single off-subgroup element must be rejected
            if (n >= 3 && kn("hopsizes", 0) == 1) for (int comp = 0; comp < 2; comp++) for (int k3 = 0; k3 < 3; k3++) { int i0 = (n - k3) % 3; if (i0 >= n) continue; int steps = (n - 1 - i0) / 3; int i = i0 + 3 * (int) r.below((uint64_t) steps + 1);
                p.ops.push_back({"HOP", {0, 0, comp, 1}, {strf("elem:%d:wrongsub:%d", (int) (p.cfg["sig"] ? 5 : 4) + i, 2 + 4 * (int) r.below(8))}}); }
            p.ops.push_back({"ENC", {(int64_t) (r.next() >> 1), 1, 0, 1}, {}}); p.ops.push_back({"DEC", {0, 1}, {}}); p.ops.push_back({"DEC", {0, 0}, {}});
            return p;
        }
        int focus = (int) kn("focus", 0);     // 0 mixed, 11..14 emphasise the ops of that property, 15 marshalling hops
        int nops = r.range(3, (int) kn("maxops", 30));
        // weights per op kind (swarm: each run draws its own mix)
        const char* kinds[] = {"KEYGEN", "QUALIFY", "ADJUST", "RESAMPLE", "PRECOMP", "ADJPRE", "ENC", "DEC", "DECM", "SIGN", "VERIFY", "ATTACK", "TAMPERCT", "HOP"};
        int wts[14];
        for (int i = 0; i < 14; i++) wts[i] = r.chance(1, 5) ? 0 : r.range(1, 6);
        wts[0] += 2; wts[1] += 3;
        if (focus == 11) { wts[1] += 6; wts[3] += 3; wts[2] += 2; }
        if (focus == 12) { wts[7] += 6; wts[11] += 6; wts[12] += 5; wts[6] += 4; }
        if (focus == 13) { wts[9] += 8; wts[10] += 8; p.cfg["sig"] = 1; }
        if (focus == 14) { wts[2] += 8; wts[4] += 4; wts[5] += 8; wts[6] += 2; wts[9] += 6; wts[10] += 3; p.cfg["sig"] = r.chance(7, 8); }
        if (focus == 15) { wts[13] += 14; wts[6] += 3; wts[9] += 3; }
        int tot = 0; for (int i = 0; i < 14; i++) tot += wts[i];
        p.ops.push_back({"KEYGEN", {(int64_t) (r.next() >> 1), r.chance(1, 6), r.chance(1, 4)}, directives(r, l)});
        static const char* sfl[] = {"storm8:3", "tupler", "tuplerp1", "tuple:r-1", "tuple:1", "tuple:2", "digit:xm1", "storm8:9"};
        // (a scalar from the GLV exceptional-addition family as the drawn value: every G1 multiplication by it meets a doubling or a cancellation part-way)
        auto maybe_fault = [&](Op& o) { if (r.chance(1, 6)) { if (r.chance(1, 6)) o.s.push_back("tuple:" + glv_code(r)); else if (o.kind == "SIGN" && r.chance(1, 5)) o.s.push_back("tuple:0"); else o.s.push_back(sfl[r.below(8)]); } };
        int64_t nenc = 0;
        for (int n = 1; n < nops; n++) {
            int x = (int) r.below((uint64_t) tot), k = 0; while (x >= wts[k]) { x -= wts[k]; k++; }
            int64_t ss = (int64_t) (r.next() >> 1); std::string kind = kinds[k];
            if (kind == "KEYGEN") { Op o{kind, {ss, r.chance(1, 6), r.chance(1, 3)}, directives(r, l)}; maybe_fault(o); p.ops.push_back(o); }
            else if (kind == "QUALIFY") { Op o{kind, {ss, (int64_t) r.below(64), r.chance(1, 6), r.chance(1, 3)}, directives(r, l)}; maybe_fault(o); p.ops.push_back(o); }
            else if (kind == "ADJUST") p.ops.push_back({kind, {(int64_t) r.below(1 << 12)}, directives(r, l, r.range(2, 4))});
            else if (kind == "RESAMPLE") { Op o{kind, {ss, (int64_t) r.below(64), r.chance(2, 3)}, {}}; maybe_fault(o); p.ops.push_back(o); }
            else if (kind == "PRECOMP") p.ops.push_back({kind, {(int64_t) r.below(64), (int64_t) r.below(1 << 17)}, {}});
            else if (kind == "ADJPRE") p.ops.push_back({kind, {(int64_t) r.below(64), (int64_t) r.below(64), (int64_t) r.below(1 << 24)}, {}});
            else if (kind == "ENC") {
                Op o{kind, {ss, (int64_t) r.below(64), r.chance(1, 2) ? 0 : (int64_t) r.below(1 << 17), r.chance(1, 2)}, {}};
                bool cong = wide && r.chance(1, 2); if (cong) o.a[2] = 2 | ((int64_t) r.below(16) << 4) | ((int64_t) r.below(256) << 8) | (1 << 16);   // the key's list plus one slot, preferably congruent to a listed one
                if (r.chance(1, 5)) { const char* sf[] = {"storm8:3", "tupler", "tuplerp1", "tuple:r-1", "tuple:0", "tuple:1", "digit:xm1", "storm8:9"}; o.s.push_back(sf[r.below(8)]); }
                p.ops.push_back(o); nenc++;
                if (cong) { p.ops.push_back({"DEC", {nenc - 1, o.a[1]}, {}}); n++; }   // ... and the key it was derived from tries it at once
            }
            else if (kind == "DEC") p.ops.push_back({kind, {(int64_t) r.below(64), (int64_t) r.below(64)}, {}});
            else if (kind == "DECM") p.ops.push_back({kind, {(int64_t) r.below(64)}, {}});
            else if (kind == "SIGN") { Op o{kind, {ss, (int64_t) r.below(64), r.chance(1, 4) ? (int64_t) (100 + r.below(1000)) : (int64_t) r.below(value_codes().size()), r.chance(1, 2), r.chance(1, 5) ? r.range(1, 2) : 0}, directives(r, l)}; maybe_fault(o); p.ops.push_back(o); }
            else if (kind == "VERIFY") p.ops.push_back({kind, {(int64_t) r.below(64), (int64_t) r.below(11), (int64_t) r.below(64)}, {}});
            else if (kind == "ATTACK") p.ops.push_back({kind, {ss, (int64_t) r.below(64), (int64_t) r.below(4), (int64_t) r.below(value_codes().size()), (int64_t) r.below(8)}, {}});
            else if (kind == "TAMPERCT") p.ops.push_back({kind, {(int64_t) r.below(64), (int64_t) r.below(3)}, {}});
            else if (kind == "HOP") p.ops.push_back(WkdRun::gen_hop(r));
        }
        g_wide_directives = false;
        return p;
    }

    // Enumeration of the single-fault set for one (object kind, form, validating?, shape) combination:
    // every embedded element x every invalid-encoding kind, every truncation length, extensions, junk.
    Plan generate_hopenum(Rng& r, int64_t idx, int64_t stride) {
        Plan p; p.scenario = name();
        int kind = (int) (idx % 5), comp = (int) ((idx / 5) % 2), checked = (int) ((idx / 10) % 2), v = (int) ((idx / 20) % 4);
        static const int ls[4] = {3, 0, 1, 2}, sg[4] = {1, 0, 1, 0};
        int l = ls[v], sig = sg[v];
        p.cfg["l"] = l; p.cfg["sig"] = sig; p.cfg["setup_seed"] = (int64_t) (r.next() >> 1);
        std::vector<std::string> d; for (int i = 0; i < l; i++) d.push_back(i == 0 && l > 1 ? "f:r+1" : "-");
        p.ops.push_back({"KEYGEN", {(int64_t) (r.next() >> 1), 0, 0}, d});
        p.ops.push_back({"ENC", {(int64_t) (r.next() >> 1), 0, 0, 0}, {}});
        if (sig) p.ops.push_back({"SIGN", {(int64_t) (r.next() >> 1), 0, 3, 0, 0}, std::vector<std::string>((size_t) l, "-")});
        if (kind == 4 && !sig) kind = 3;
        p.ops.push_back({"HOP", {kind, 0, comp, checked}, {}});
        int n = kind == 0 ? l : (l > 1 ? l - 1 : l);
        WireLayout L = wk_layout(kind + 1, comp != 0, sig != 0, n);
        size_t ne = 0; for (auto& e : L.elems) if (e.g) ne++;
        std::vector<std::string> kinds = invalid_kinds(); kinds.push_back("other"); kinds.push_back("infinity");
        for (size_t e = 0; e < ne; e++) for (auto& k : kinds) p.ops.push_back({"HOP", {kind, 0, comp, checked}, {strf("elem:%zu:%s:%llu", e, k.c_str(), (unsigned long long) (r.next() >> 8))}});
        for (size_t n2 = 1; n2 < L.total; n2 += (size_t) stride) p.ops.push_back({"HOP", {kind, 0, comp, checked}, {strf("trunc:%zu", n2)}});
        for (size_t n2 = 1; n2 <= 64; n2 += (size_t) stride) p.ops.push_back({"HOP", {kind, 0, comp, checked}, {strf("ext:%zu:%d", n2, (int) r.below(256))}});
        size_t per = kind == 0 ? enc_size(1, comp) : enc_size(1, comp) + 4;
        if (kind == 0 || kind == 2) for (int m = 1; m <= 3; m++) for (int fill : {0, 0xFF, 0xC0, 0x40}) p.ops.push_back({"HOP", {kind, 0, comp, checked}, {strf("ext:%zu:%d", per * (size_t) m, fill)}});
        for (size_t off = 0; off < L.total; off += (size_t) (7 * stride)) p.ops.push_back({"HOP", {kind, 0, comp, checked}, {strf("flip:%zu:%d", off, (int) r.below(8))}});
        if (kind == 2) for (int j = 0; j < 6; j++) p.ops.push_back({"HOP", {kind, 0, comp, checked}, {strf("wideidx:%d", j * 7 + 1)}});
        p.ops.push_back({"HOP", {kind, 0, comp, checked}, {"flip:0:0"}}); p.ops.push_back({"HOP", {kind, 0, comp, checked}, {"set:0:2"}}); p.ops.push_back({"HOP", {kind, 0, comp, checked}, {"set:0:255"}});
        for (size_t cut = 1; cut < L.total; cut += (size_t) (13 * stride)) p.ops.push_back({"HOP", {kind, 0, comp, checked}, {strf("torn:%zu", cut)}});
        for (int j = 0; j < 24; j++) p.ops.push_back({"HOP", {kind, 0, comp, checked}, {strf("junk:%d:%llu", (int) (j < 8 ? r.below(16) : r.below(4096)), (unsigned long long) (r.next() >> 8))}});
        return p;
    }

    void run(const Plan& plan, RunEnv& env) override { WkdRun run(env, plan); run.run(); }

    std::vector<Op> simplify_op(const Plan& p, size_t i) override {
        std::vector<Op> out; const Op& op = p.ops[i];
        // directives: '-' is simplest, then plain fix of 1, then hide
        for (size_t k = 0; k < op.s.size(); k++) {
            if (op.kind == "ENC" || op.kind == "HOP" || op.kind == "RESAMPLE" || (op.kind != "ADJUST" && k >= (size_t) p.c("l"))) { Op o = op; o.s.erase(o.s.begin() + (long) k); out.push_back(o); continue; }
            if (op.s[k] != "-") { Op o = op; o.s[k] = "-"; out.push_back(o); }
            if (op.s[k].compare(0, 2, "f:") == 0 && op.s[k] != "f:1") { Op o = op; o.s[k] = "f:1"; out.push_back(o); }
            if (op.s[k] == "h~") { Op o = op; o.s[k] = "h"; out.push_back(o); }
        }
        // integer arguments toward 0 (flags off, handle 0, mutation 0)
        for (size_t k = (op.kind == "ADJUST" || op.kind == "PRECOMP" || op.kind == "DEC" || op.kind == "DECM" || op.kind == "VERIFY" || op.kind == "TAMPERCT" || op.kind == "ADJPRE" || op.kind == "HOP") ? 0 : 1; k < op.a.size(); k++)
            if (op.a[k] != 0) { Op o = op; o.a[k] = 0; out.push_back(o); if (op.a[k] > 15) { Op o2 = op; o2.a[k] = op.a[k] & 15; out.push_back(o2); } }
        if (op.kind == "ADJUST") { int l = (int) p.c("l"); if (l > 0 && op.s.size() > 2 * (size_t) l) { Op o = op; o.s.resize(op.s.size() - (size_t) l); out.push_back(o); } }
        return out;
    }
    std::vector<std::map<std::string, int64_t>> simplify_cfg(const Plan& p) override {
        std::vector<std::map<std::string, int64_t>> out;
        if (p.c("sig") != 0) { auto c = p.cfg; c["sig"] = 0; out.push_back(c); }
        return out;
    }
};

static ScenarioReg reg_wkd(new WkdScenario());

} // namespace jv
