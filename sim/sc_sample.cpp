// sc_sample.cpp - scenario "sample": every sampler and hash-to-X entry point driven by the
// simulator's random stream under stream faults, judged by M-sample (C10), plus target-group
// exponentiation with stream-derived and boundary exponents (C07).
#include <functional>
#include <pthread.h>
#include "core.hpp"
#include "wkd_model.hpp"
#include "wkd_wire.hpp"

namespace jv {

struct SampleRun {
    RunEnv& env; W w; Rep& R; int view; const Plan& plan;
    std::vector<GTv> gts; Bn prev_exponent = Bn::sub(Bn(1).shl(256), Bn(1));
    SampleRun(RunEnv& e, const Plan& p) : env(e), w(e), R(*e.rep), view(e.view), plan(p) {}

    void push(size_t n, const Bn& v) { std::vector<uint8_t> b(n); v.to_le(b.data(), n); env.stream.push(n, b); }
    // stream faults: all legal outputs of a random source
    void stream_faults(const std::vector<std::string>& toks) {
        for (auto& f : toks) {
            std::string kind = f.substr(0, f.find(':')), arg = f.find(':') == std::string::npos ? "" : f.substr(f.find(':') + 1);
            int n = atoi(arg.c_str());
            auto tuple = [&](const Bn& y) { Bn q, rem, cur = y; for (int i = 0; i < 4; i++) { Bn::divmod(cur, K().absx, q, rem); push(8, rem); cur = q; } };
            if (kind == "storm8") for (int i = 0; i < n; i++) push(8, i % 3 == 0 ? K().absx : i % 3 == 1 ? Bn::sub(Bn(1).shl(64), Bn(1)) : Bn::add(K().absx, Bn(1)));
            else if (kind == "storm32") for (int i = 0; i < n; i++) push(32, i % 3 == 0 ? K().r : i % 3 == 1 ? Bn::sub(Bn(1).shl(256), Bn(1)) : Bn::add(K().r, Bn(1).shl(255)));     // top bit set: masked, still >= r
            else if (kind == "storm48") for (int i = 0; i < n; i++) push(48, i % 3 == 0 ? K().q : i % 3 == 1 ? Bn::sub(Bn(1).shl(384), Bn(1)) : Bn::add(K().q, Bn(1).shl(383)));
            else if (kind == "fr") { Bn v = arg == "r-1" ? Bn::sub(K().r, Bn(1)) : arg == "r" ? K().r : arg == "r+1" ? Bn::add(K().r, Bn(1)) : arg == "0" ? Bn(0) : arg == "r-1hi" ? Bn::add(Bn::sub(K().r, Bn(1)), Bn(1).shl(255)) : Bn(1); push(32, v); }
            else if (kind == "fq") { Bn v = arg == "q-1" ? Bn::sub(K().q, Bn(1)) : arg == "q" ? K().q : arg == "q+1" ? Bn::add(K().q, Bn(1)) : arg == "0" ? Bn(0) : arg == "q-1hi" ? Bn::add(Bn::sub(K().q, Bn(1)), Bn(7).shl(381)) : Bn(1); push(48, v); }
            else if (kind == "digit") push(8, arg == "xm1" ? Bn::sub(K().absx, Bn(1)) : arg == "x" ? K().absx : Bn(0));
            else if (kind == "tuple") tuple(arg == "r" ? K().r : arg == "r+1" ? Bn::add(K().r, Bn(1)) : arg == "r-1" ? Bn::sub(K().r, Bn(1)) : arg == "0" ? Bn(0) : arg == "1" ? Bn(1) : arg == "x" ? K().absx : arg.compare(0, 3, "xd:") == 0 ? value_of_code(arg) : Bn(2));
            else if (kind == "carry") { Bn d[4]; if (carry_tuple(n, (uint64_t) env.step * 131 + env.lib_calls, d)) { for (int i = 0; i < 4; i++) push(8, d[i]); env.count("probe:random_exponent_digits_with_carry_through_all_ones_limb"); } }
            else if (kind == "torsion1" || kind == "torsion2") { int g = kind == "torsion1" ? 1 : 2; std::vector<uint8_t> raw; if (torsion_candidate_raw(R, g, (uint64_t) n, raw)) { env.stream.push(48, std::vector<uint8_t>(raw.begin(), raw.begin() + 48)); if (g == 2) env.stream.push(48, std::vector<uint8_t>(raw.begin() + 48, raw.end())); env.stream.push(1, std::vector<uint8_t>(1, (uint8_t) (n & 1))); } }
            else if (kind == "nostorm1" || kind == "nostorm2") {   // n consecutive candidates that are field elements but not x coordinates of curve points
                int g = kind == "nostorm1" ? 1 : 2; Rng rr((uint64_t) n * 77 + 5); Buf aff(R.sz(g == 1 ? JV_SZ_G1A : JV_SZ_G2A)); int pushed = 0;
                for (int t = 0; t < 4 * n && pushed < n; t++) {
                    uint8_t raw[96]; rr.fill(raw, 96); raw[47] &= 0x0F; raw[95] &= 0x0F; uint8_t xle[96]; fq_canon(raw).to_le(xle, 48); if (g == 2) fq_canon(raw + 48).to_le(xle + 48, 48);
                    int ok = g == 1 ? R.jv_g1a_from_x(aff, xle, 0) : R.jv_g2a_from_x(aff, xle, 0); if (ok) continue;
                    env.stream.push(48, std::vector<uint8_t>(raw, raw + 48)); if (g == 2) env.stream.push(48, std::vector<uint8_t>(raw + 48, raw + 96)); env.stream.push(1, std::vector<uint8_t>(1, (uint8_t) t)); pushed++;
                }
                env.count("probe:scripted_candidates_without_y", (uint64_t) pushed); env.stream.limit += (size_t) 4 * (size_t) n;
            }
            else if (kind == "sign") { std::vector<uint8_t> b(1, (uint8_t) n); env.stream.push(1, b); }
            else if (kind == "const") { for (int i = 0; i < 6; i++) { env.stream.push(8, std::vector<uint8_t>(8, (uint8_t) n)); } env.stream.push(32, std::vector<uint8_t>(32, (uint8_t) n)); env.stream.push(48, std::vector<uint8_t>(48, (uint8_t) n)); }
            env.count("fault:stream_" + kind);
        }
    }
    void begin(uint64_t sseed, const std::vector<std::string>& toks, size_t skip = 0) {
        env.stream.reseed(sseed);
        stream_faults(std::vector<std::string>(toks.begin() + (long) std::min(skip, toks.size()), toks.end()));
        env.stream.begin_call(); env.lib_calls++;
    }
    void finish(SampleCursor& c, const char* what, const char* prop = "C10") {
        if (!c.err.empty()) env.fail(prop, "M-sample:request-sequence", std::string(what) + ": " + c.err);
        if (!c.done()) env.fail(prop, "M-sample:request-sequence", strf("%s made %zu random requests, the model needs only %zu (a candidate the model accepts was rejected, or extra bytes were drawn)", what, env.stream.reqs.size(), c.pos));
        if (c.rejections >= 3) env.count("probe:three_or_more_consecutive_rejections");
        if (c.rejections) env.count("probe:rejections", c.rejections);
    }

    void op_zp(const Op& op) {
        int which = (int) op.arg(1) % 4;      // 2 and 3 are C++-only entry points (no C wrapper exists); they run identically under both views
        begin((uint64_t) op.arg(0), op.s);
        Frv out; memset(out.b, 0xCD, 32); uint64_t c4[4] = {0, 0, 0, 0}; const char* nm;
        env.stream.watch_lo = out.b; env.stream.watch_hi = out.b + 32; env.stream.watch_hits = 0;
        if (which == 0) { nm = "zp_random"; R.jv_zp_random(view, out.b, jv_rand_cb); }
        else if (which == 1) { nm = "random_zpstar"; R.jv_wk_random_zpstar(view, out.b, jv_rand_cb); }
        else if (which == 2) { nm = "random_zpstar(powers)"; R.jv_wk_random_zpstar_powers(c4, out.b, jv_rand_cb); }
        else {
            nm = "Fq::random"; uint8_t o48[48]; R.jv_fq_random(o48, jv_rand_cb);
            SampleCursor c(env.stream.reqs); Bn v; model_fq_random(c, v); finish(c, nm);
            env.check(Bn::from_le(o48, 48) == v, "C10", "sample:field-element", "Fq::random did not return the first candidate below q");
            env.check(v < K().q, "C10", "sample:below-modulus", "Fq::random returned a value >= q");
            env.logf("ZP %s %s", nm, v.hexstr(48).c_str()); env.add_case(strf("zp %s rej%llu", nm, (unsigned long long) c.rejections), c.rejections > 0); return;
        }
        SampleCursor c(env.stream.reqs); Bn v; uint64_t d[4];
        if (which == 2) { model_powers_random(c, v, d); finish(c, nm); for (int i = 0; i < 4; i++) env.check(c4[i] == d[i] && Bn(c4[i]) < K().absx, "C10", "sample:decomposed-digits", strf("digit %d of the decomposed random scalar is %llx, model says %llx", i, (unsigned long long) c4[i], (unsigned long long) d[i])); for (int i = 0; i < 4; i++) if (Bn(d[i]) == Bn::sub(K().absx, Bn(1))) env.count("probe:digit_equals_x_minus_1"); }
        else { model_fr_random(c, v); finish(c, nm); }
        Bn got = Bn::from_le(out.b, 32);
        env.check(got == v, "C10", "sample:scalar", strf("%s returned %s, the first accepted candidate of the stream is %s", nm, got.hexstr().c_str(), v.hexstr().c_str()));
        env.check(got < K().r, "C10", "sample:below-modulus", std::string(nm) + " returned a scalar >= r");
        env.logf("ZP %s %s requests-filled-in-the-output-object=%llu", nm, v.hexstr().c_str(), (unsigned long long) env.stream.watch_hits); env.stream.watch_lo = env.stream.watch_hi = nullptr;
        env.add_case(strf("zp %s rej%llu", nm, (unsigned long long) c.rejections), c.rejections > 0 || !op.s.empty());
    }

    // M-sample for sample_random_generator
    template <int G> bool model_generator(SampleCursor& c, std::string& canon_out, uint64_t& rounds) {
        Buf aff(R.sz(G == 1 ? JV_SZ_G1A : JV_SZ_G2A));
        for (rounds = 0; rounds < 40000; rounds++) {
            uint8_t xle[96]; memset(xle, 0, 96);
            // Fq::random fills the element's internal (Montgomery) representation with the accepted bytes:
            // the field element drawn is bytes * 2^-384 mod q.
            uint8_t raw[48];
            Bn x0; if (!model_fq_random(c, x0)) return false; x0.to_le(raw, 48); fq_canon(raw).to_le(xle, 48);
            if (G == 2) { Bn x1; if (!model_fq_random(c, x1)) return false; x1.to_le(raw, 48); fq_canon(raw).to_le(xle + 48, 48); }
            auto b = c.take(1); if (!b) return false;
            bool greater = ((*b)[0] & 1) == 1;
            int ok = G == 1 ? R.jv_g1a_from_x(aff, xle, 0) : R.jv_g2a_from_x(aff, xle, 0);
            if (!ok) { c.rejections++; env.count("probe:x_candidate_without_y"); continue; }
            // select y by the model's own ordering
            MPoint m = mpoint_of_affine(R, G, aff);
            if (model_y_greater(m) != greater) {
                size_t half = m.xy.size() / 2;
                for (size_t i = 0; i < half; i += 48) { Bn y = Bn::from_be(&m.xy[half + i], 48); if (!y.is_zero()) y = Bn::sub(K().q, y); y.to_be(&m.xy[half + i], 48); }
                if (G == 1) R.jv_g1a_set_xy(aff, m.xy.data(), 0); else R.jv_g2a_set_xy(aff, m.xy.data(), 0);
            }
            uint8_t cn[193];
            if (G == 1) { G1v p; R.jv_g1_clear_cofactor_ref(p.b, aff); R.jv_g1_canon(cn, p.b); canon_out.assign((char*) cn, 97); }
            else { G2v p; R.jv_g2_clear_cofactor_ref(p.b, aff); R.jv_g2_canon(cn, p.b); canon_out.assign((char*) cn, 193); }
            if (cn[0] == 1) { c.rejections++; env.count("probe:cofactor_cleared_to_identity"); continue; }
            return true;
        }
        return false;
    }

    // The library call on a thread with a small stack (an RTOS task, a fibre): a sampler whose stack use grows with the number of rejected
    // candidates runs off it; one whose stack use is constant does not notice.
    static void* small_stack_tramp(void* p) { auto* f = static_cast<std::function<void()>*>(p); (*f)(); return nullptr; }
    void run_on_small_stack(size_t bytes, std::function<void()> body) {
        Stream* st = tl_stream; HashStub* hs = tl_hash;
        std::function<void()> f = [&] { tl_stream = st; tl_hash = hs; body(); };
        pthread_attr_t at; pthread_attr_init(&at); pthread_attr_setstacksize(&at, bytes); pthread_t th;
        if (pthread_create(&th, &at, small_stack_tramp, &f) != 0) { body(); return; }
        pthread_join(th, nullptr); pthread_attr_destroy(&at); env.count("fault:call_made_on_a_thread_with_a_small_stack");
    }
    void op_gen(const Op& op) {
        int g = (int) op.arg(1) % 2 + 1, which = (int) op.arg(2) % 2;
        begin((uint64_t) op.arg(0), op.s); env.stream.limit += 64;
        std::string got, want; uint64_t rounds = 0; const char* nm = g == 1 ? (which ? "random_g1" : "g1_random") : (which ? "random_g2" : "g2_random");
        Buf aff(R.sz(g == 1 ? JV_SZ_G1A : JV_SZ_G2A)); int st;
        bool small = false; for (auto& t : op.s) if (t.compare(0, 7, "nostorm") == 0) small = true;
        if (g == 1) { G1v p; auto call = [&] { if (which) R.jv_wk_random_g1(view, p.b, jv_rand_cb); else R.jv_g1_random(view, p.b, jv_rand_cb); }; if (small) run_on_small_stack(128 * 1024, call); else call(); got = w.c1(p); R.jv_g1affine_from_projective(1, aff, p.b); st = R.jv_g1a_status(aff); }
        else { G2v p; auto call = [&] { if (which) R.jv_wk_random_g2(view, p.b, jv_rand_cb); else R.jv_g2_random(view, p.b, jv_rand_cb); }; if (small) run_on_small_stack(128 * 1024, call); else call(); got = w.c2(p); R.jv_g2affine_from_projective(1, aff, p.b); st = R.jv_g2a_status(aff); }
        env.check(!(st & 1), "C10", "sample:generator-non-identity", std::string(nm) + " returned the identity");
        env.check((st & 2) != 0, "C10", "sample:generator-on-curve", std::string(nm) + " returned a point off the curve");
        env.check((st & 4) != 0, "C10", "sample:generator-in-subgroup", std::string(nm) + " returned a point outside the order-r subgroup");
        SampleCursor c(env.stream.reqs);
        bool ok = g == 1 ? model_generator<1>(c, want, rounds) : model_generator<2>(c, want, rounds);
        if (!ok && c.err.empty()) c.err = "model did not find a generator";
        finish(c, nm);
        env.check(got == want, "C10", "sample:generator-value", strf("%s: result is not cofactor * (the point selected by the first x candidate with a y and its sign byte)", nm));
        env.logf("GEN %s %s", nm, sha_hex(got.data(), got.size(), 8).c_str());
        env.add_case(strf("gen %s rounds%llu", nm, (unsigned long long) (rounds > 3 ? 3 : rounds)), rounds > 0 || !op.s.empty());
    }

    GTv base(int64_t h) {
        if (gts.empty()) { GTv g; R.jv_const_get(JV_EK_GT, 1, g.b); gts.push_back(g); }
        return gts[(size_t) h % gts.size()];
    }

    void op_gtr(const Op& op) {
        GTv b = base(op.arg(1)); int which = (int) op.arg(2) % 2;
        // the clause "the random exponent is consistent with the returned element" is stated by C07 and by C10: judge it under the one being checked
        const char* GP = env.focus == "C10" ? "C10" : "C07";
        begin((uint64_t) op.arg(0), op.s);
        GTv out; Frv y; memset(y.b, 0, 32); const char* nm = which ? "random_gt" : "gt_multiply_random";
        if (which) { R.jv_const_get(JV_EK_GT, 1, b.b); R.jv_wk_random_gt(view, out.b, jv_rand_cb); }
        else if (op.arg(3) & 1) { memcpy(out.b, b.b, sizeof(out.b)); R.jv_gt_multiply_random(view, out.b, y.b, out.b, jv_rand_cb); env.count("probe:in_place_call_output_is_the_input_object"); }   // the caller's accumulator idiom: result object = base object
        else R.jv_gt_multiply_random(view, out.b, y.b, b.b, jv_rand_cb);
        SampleCursor c(env.stream.reqs); Bn v; uint64_t d[4]; model_powers_random(c, v, d); finish(c, nm, GP);
        if (!which) { env.check(Bn::from_le(y.b, 32) == v, GP, "random-exponent:value", strf("gt_multiply_random returned exponent %s, the stream determines %s", Bn::from_le(y.b, 32).hexstr().c_str(), v.hexstr().c_str())); env.check(Bn::from_le(y.b, 32) < K().r, GP, "random-exponent:below-r", "random exponent >= r"); }
        env.check(w.ct(out) == w.ct(w.gtpow(b, v)), GP, "random-exponent:power", std::string(nm) + ": result != base^y by generic square-and-multiply");
        GTv nd; uint8_t k[32]; v.to_le(k, 32); R.jv_gt_pow_nodiv(nd.b, b.b, k);
        env.check(w.ct(out) == w.ct(nd), GP, "random-exponent:power-nodiv", std::string(nm) + ": result != base^y by the division-free cyclotomic path");
        for (int i = 0; i < 4; i++) if (Bn(d[i]) == Bn::sub(K().absx, Bn(1))) env.count("probe:digit_equals_x_minus_1");
        if (v == Bn::sub(K().r, Bn(1))) env.count("probe:random_exponent_r_minus_1");
        env.logf("GTR %s y=%s", nm, v.hexstr().c_str());
        gts.push_back(out); if (gts.size() > 6) gts.erase(gts.begin() + 1);
        env.add_case(strf("gtr %s rej%llu", nm, (unsigned long long) (c.rejections > 3 ? 3 : c.rejections)), true);
    }

    void op_gtpow(const Op& op) {
        GTv a = base(op.arg(0)); Bn k = value_of_code(op.s.empty() ? "1" : op.s[0]);
        uint8_t k32[32]; k.to_le(k32, 32); GTv out; env.lib_calls++;
        bool inplace = (op.arg(1) & 1) != 0;
        if (inplace) { memcpy(out.b, a.b, sizeof(out.b)); R.jv_gt_multiply(view, out.b, out.b, k32); env.count("probe:in_place_call_output_is_the_input_object"); }
        else R.jv_gt_multiply(view, out.b, a.b, k32);
        env.check(w.ct(out) == w.ct(w.gtpow(a, k)), "C07", "exponentiation:value", "gt_multiply(a, " + k.hexstr() + ") != a^k by generic square-and-multiply");
        uint64_t d[4]; R.jv_decompose_x(d, k32);
        Bn rec = Bn(d[0]); rec = Bn::add(rec, Bn::mul(Bn(d[1]), K().absx)); rec = Bn::add(rec, Bn::mul(Bn(d[2]), K().x2)); rec = Bn::add(rec, Bn::mul(Bn(d[3]), K().x3));
        env.check(Bn::mod(rec, K().r) == Bn::mod(k, K().r), "C07", "decomposition:recombines", "base-|x| digits of " + k.hexstr() + " do not recombine to it modulo r");
        if (k < K().r) for (int i = 0; i < 4; i++) env.check(Bn(d[i]) < K().absx, "C07", "decomposition:digit-range", "a digit of the decomposition of a reduced exponent is >= |x|");
        {   // the same decomposition into an object that held the digits of the previous exponent of this history
            uint64_t d2[4]; uint8_t kp[32]; prev_exponent.to_le(kp, 32); R.jv_decompose_x_reuse(d2, kp, k32); prev_exponent = k;
            for (int i = 0; i < 4; i++) env.check(d2[i] == d[i], "C07", "decomposition:recombines", "decomposing " + k.hexstr() + " into an object that held an earlier decomposition gives other digits than into a fresh one");
            // the division-free routine at the exponent widths it is a template over (64..320 bits), exponent objects with dirty padding
            static const int widths[] = {64, 128, 192, 256, 320}; int wd = widths[(size_t) (k.low64() ^ (uint64_t) env.step) % 5]; uint8_t k40[40]; memset(k40, 0, 40);
            Bn kw = wd >= 256 ? k : Bn::mod(k, Bn(1).shl(wd)); kw.to_le(k40, 40); if (wd == 320) k40[39] = 0;   // (320-bit: upper 64 bits stay zero here; a^k only needs k mod r anyway)
            GTv nw; R.jv_gt_pow_nodiv_width(nw.b, a.b, k40, wd); env.lib_calls++;
            env.check(w.ct(nw) == w.ct(w.gtpow(a, kw)), "C07", "exponentiation:value", strf("division-free exponentiation with a %d-bit exponent object != a^k by generic square-and-multiply", wd));
        }
        GTv dbl, neg, prod, one = w.gtone(); env.lib_calls += 3;
        if (inplace) { memcpy(dbl.b, a.b, sizeof(dbl.b)); R.jv_gt_double(view, dbl.b, dbl.b); } else { R.jv_gt_double(view, dbl.b, a.b); }
        env.check(w.ct(dbl) == w.ct(w.gtmul(a, a)), "C07", "squaring:value", "gt_double(a) != a*a");
        int addalias = (int) ((op.arg(1) >> 1) % 3);   // which operand of the group operation the result object is: the first, the second, or both (x*x into x)
        if (inplace && addalias == 1) { memcpy(neg.b, a.b, sizeof(neg.b)); R.jv_gt_negate(view, neg.b, neg.b); memcpy(prod.b, a.b, sizeof(prod.b)); R.jv_gt_add(view, prod.b, neg.b, prod.b); env.count("probe:in_place_group_operation_result_is_second_operand"); }
        else if (inplace && addalias == 2) { memcpy(neg.b, a.b, sizeof(neg.b)); R.jv_gt_negate(view, neg.b, neg.b); GTv sq; memcpy(sq.b, a.b, sizeof(sq.b)); R.jv_gt_add(view, sq.b, sq.b, sq.b); env.lib_calls++; env.check(w.ct(sq) == w.ct(w.gtmul(a, a)), "C07", "group-operation:value", "gt_add(x, x, x) != x*x"); R.jv_gt_add(view, prod.b, neg.b, a.b); env.count("probe:in_place_group_operation_all_three_the_same_object"); }
        else if (inplace) { memcpy(neg.b, a.b, sizeof(neg.b)); R.jv_gt_negate(view, neg.b, neg.b); memcpy(prod.b, neg.b, sizeof(prod.b)); R.jv_gt_add(view, prod.b, prod.b, a.b); } else { R.jv_gt_negate(view, neg.b, a.b); R.jv_gt_add(view, prod.b, neg.b, a.b); } env.check(w.ct(prod) == w.ct(one), "C07", "inversion:value", "gt_negate(a)*a != 1");
        env.logf("GTPOW k=%s out=%s", k.hexstr().c_str(), sha_hex(out.b, 576, 8).c_str());
        gts.push_back(out); if (gts.size() > 6) gts.erase(gts.begin() + 1);
        env.add_case("gtpow " + (op.s.empty() ? std::string("1") : op.s[0].substr(0, 6)), k >= K().r);
    }

    void op_hashs(const Op& op) {
        std::vector<uint8_t> h = unhex(op.s.empty() ? "" : op.s[0]); h.resize(32);
        MBytes hm(h.data(), h.size(), (size_t) ((env.lib_calls + (uint64_t) env.step) % 16));   // digests are byte strings: they arrive at any address (16-byte aligned ones included)
        Buf h32; if ((env.lib_calls + (uint64_t) env.step) % 5 == 0) { h32.alloc(64 + 32); }   // ... and one in five at a 32-byte boundary, where a vectorised byte reversal is eligible
        uint8_t* hp = hm.p; if (h32.p) { hp = (uint8_t*) (((uintptr_t) h32.p + 31) & ~(uintptr_t) 31); memcpy(hp, h.data(), 32); env.count("probe:digest_at_32_byte_boundary"); }
        Frv out; env.lib_calls += 2; R.jv_zp_from_hash(view, out.b, hp);
        Bn in = Bn::from_be(h.data(), 32); Bn want = Bn::mod(Bn::mod(in, Bn(1).shl(255)), K().r);
        env.check(Bn::from_le(out.b, 32) == want, "C10", "hash-to-scalar:value", "zp_from_hash(" + hex(h.data(), 32) + ") != (input with top bit cleared) mod r");
        Frv x; for (int i = 0; i < 32; i++) x.b[i] = h[31 - (size_t) i];
        R.jv_wk_scalar_hash_reduce(view, x.b);
        env.check(Bn::from_le(x.b, 32) == want, "C10", "hash-to-scalar:value", "scalar_hash_reduce != (input with top bit cleared) mod r");
        // initialisation order: the same entry points were called once from a constructor that ran ahead of the library's own dynamic initialisers
        { int d = R.jv_early_probe_check(); env.count("probe:hash_to_scalar_before_library_initialisers_compared");
          if (d >= 0) { static const char* ep[] = {"C scalar_hash_reduce", "C++ scalar_hash_reduce", "C zp_from_hash", "C++ Fr::hash_reduce"};
              env.fail("C10", "hash-to-scalar:same-before-library-initialisers", strf("%s called from a global constructor that runs before the library's dynamic initialisers returned a different scalar for boundary input #%d than the same call does now", ep[d / 6], d % 6)); } }
        env.logf("HASHS %s", want.hexstr().c_str());
        env.add_case(strf("hashs ge_r%d top%d", Bn::mod(in, Bn(1).shl(255)) >= K().r, in.bit(255)), true);
    }

    // hash-to-curve: first x >= x0 (incrementing; for Fq2 the c0 component) for which x^3+b is a square; y = the not-greater root
    void op_hashc(const Op& op) {
        int g = (int) op.arg(0) % 2 + 1, idmode = (int) op.arg(1) % 2; if (g == 2) idmode = 0;
        std::vector<uint8_t> h = unhex(op.s.empty() ? "" : op.s[0]); h.resize(g == 1 ? 48 : 96);
        Buf out(R.sz(g == 1 ? JV_SZ_G1A : JV_SZ_G2A)), out2(out.n); Buf id(R.sz(JV_SZ_LQ_ID)), id2(R.sz(JV_SZ_LQ_ID));
        env.lib_calls += 2;
        // every third call hashes in place: the caller keeps the digest in the very object that receives the point (offset 0, the x field)
        bool inplace = (h[1] % 3) == 0 && out2.n >= h.size();
        if (inplace) { memcpy(out2.p, h.data(), h.size()); env.count("probe:in_place_call_output_is_the_input_object"); }
        MBytes hm(h.data(), h.size(), (size_t) (1 + (env.lib_calls + (uint64_t) env.step) % 15));   // the digest at an arbitrary (odd, unaligned) address
        const uint8_t* h2 = inplace ? out2.p : h.data();
        if (g == 1) { R.jv_g1affine_from_hash(view, out, hm.p); R.jv_g1affine_from_hash(view, out2, h2); }
        else { R.jv_g2affine_from_hash(view, out, hm.p); R.jv_g2affine_from_hash(view, out2, h2); }
        auto canon = [&](const void* a) { uint8_t c[193]; if (g == 1) { R.jv_g1a_canon(c, a); return std::string((char*) c, 97); } R.jv_g2a_canon(c, a); return std::string((char*) c, 193); };
        env.check(canon(out) == canon(out2), "C10", "hash-to-curve:deterministic", inplace ? "hashing the same bytes gave a different point when the digest was kept inside the result object" : "hashing the same bytes twice gave different points");
        // model
        size_t nc = g == 1 ? 1 : 2; Bn x[2];     // x[0] = c0, x[1] = c1
        for (size_t i = 0; i < nc; i++) { uint8_t t[48]; memcpy(t, &h[i * 48], 48); t[0] &= 0x1F; Bn v = Bn::mod(Bn::from_be(t, 48), K().q); if (g == 1) x[0] = v; else x[1 - i] = v; }
        Buf aff(out.n); uint64_t skipped = 0;
        for (;; skipped++) {
            uint8_t xle[96]; memset(xle, 0, 96); x[0].to_le(xle, 48); if (g == 2) x[1].to_le(xle + 48, 48);
            int ok = g == 1 ? R.jv_g1a_from_x(aff, xle, 0) : R.jv_g2a_from_x(aff, xle, 0);
            {   // independent of the library's own square test: x^3 + b is a square iff (G1) its Legendre symbol, (G2) the Legendre symbol of its norm, is not -1
                const Bn& q = K().q; Bn lgv;
                if (g == 1) lgv = Bn::addmod(Bn::mulmod(Bn::mulmod(x[0], x[0], q), x[0], q), Bn(4), q);
                else { Bn a = x[0], b = x[1], a2 = Bn::mulmod(a, a, q), b2 = Bn::mulmod(b, b, q);
                       Bn re = Bn::addmod(Bn::submod(Bn::mulmod(a2, a, q), Bn::mulmod(Bn(3), Bn::mulmod(a, b2, q), q), q), Bn(4), q);          // a^3 - 3ab^2 + 4
                       Bn im = Bn::addmod(Bn::submod(Bn::mulmod(Bn(3), Bn::mulmod(a2, b, q), q), Bn::mulmod(b2, b, q), q), Bn(4), q);          // 3a^2 b - b^3 + 4
                       lgv = Bn::addmod(Bn::mulmod(re, re, q), Bn::mulmod(im, im, q), q); if (im.is_zero()) env.count("probe:g2_candidate_with_x3_plus_b_in_the_base_field"); }
                uint8_t le[48]; lgv.to_le(le, 48); bool square = R.jv_fq_legendre(le) != -1;
                if (square != (ok != 0)) env.fail("C10", "hash-to-curve:first-point", strf("candidate x for G%d: x^3+b %s a square, but the library's point-from-x %s it", g, square ? "is" : "is not", ok ? "accepts" : "rejects"));
            }
            if (ok) break;
            if (skipped > 300) env.fail("C10", "hash-to-curve:total", "model found no curve point within 300 increments");
            x[0] = Bn::addmod(x[0], Bn(1), K().q);
        }
        MPoint m = mpoint_of_affine(R, g, aff);
        if (model_y_greater(m)) { size_t half = m.xy.size() / 2; for (size_t i = 0; i < half; i += 48) { Bn y = Bn::from_be(&m.xy[half + i], 48); if (!y.is_zero()) y = Bn::sub(K().q, y); y.to_be(&m.xy[half + i], 48); } if (g == 1) R.jv_g1a_set_xy(aff, m.xy.data(), 0); else R.jv_g2a_set_xy(aff, m.xy.data(), 0); }
        int st = g == 1 ? R.jv_g1a_status(out) : R.jv_g2a_status(out);
        env.check((st & 2) != 0 && !(st & 1), "C10", "hash-to-curve:on-curve", "hash-to-curve result is not a finite curve point");
        env.check(canon(out) == canon(aff), "C10", "hash-to-curve:first-point", strf("hash-to-curve result is not the first curve point at or after the hashed x (model skipped %llu candidates)", (unsigned long long) skipped));
        if (skipped) env.count("probe:hash_to_curve_incremented", skipped);
        if (idmode) {
            env.lib_calls += 2; R.jv_lq_compute_id_from_hash(view, id, hm.p); R.jv_lq_compute_id_from_hash(view, id2, h.data());
            int ek; void* q = R.jv_field(JV_OK_LQ_ID, id, 0, 0, &ek); void* q2 = R.jv_field(JV_OK_LQ_ID, id2, 0, 0, &ek);
            G1v cc; R.jv_g1_clear_cofactor_ref(cc.b, aff); Buf ca(out.n); R.jv_g1affine_from_projective(1, ca, cc.b);
            env.check(canon(q) == canon(q2), "C10", "identity-derivation:deterministic", "compute_id_from_hash is not deterministic");
            env.check(canon(q) == canon(ca), "C10", "identity-derivation:cofactor-cleared", "identity point != cofactor * hash-to-curve point");
            env.check((R.jv_g1a_status(q) & 6) == 6, "C10", "identity-derivation:in-subgroup", "identity point is not in the order-r subgroup");
        }
        env.logf("HASHC g%d %s", g, sha_hex(canon(out).data(), g == 1 ? 97 : 193, 8).c_str());
        env.add_case(strf("hashc g%d id%d skip%llu", g, idmode, (unsigned long long) (skipped > 4 ? 4 : skipped)), true);
    }

    void run() {
        for (size_t i = 0; i < plan.ops.size(); i++) {
            const Op& op = plan.ops[i]; env.step = (int) i;
            if (op.kind == "ZP") op_zp(op); else if (op.kind == "GEN") op_gen(op); else if (op.kind == "GTR") op_gtr(op);
            else if (op.kind == "GTPOW") op_gtpow(op); else if (op.kind == "HASHS") op_hashs(op); else if (op.kind == "HASHC") op_hashc(op);
        }
    }
};

struct SampleScenario : Scenario {
    const char* name() const override { return "sample"; }
    static std::string rhex(Rng& r, size_t n) { std::vector<uint8_t> b(n); r.fill(b.data(), n); return hex(b.data(), n); }
    Plan generate(uint64_t seed, const std::map<std::string, int64_t>& knobs) override {
        Rng r(seed); Plan p; p.scenario = name();
        auto kn = [&](const char* k, int64_t d) { auto it = knobs.find(k); return it == knobs.end() ? d : it->second; };
        int focus = (int) kn("focus", 0);       // 7: GT ops, 10: samplers and hashes
        int n = r.range(4, 24);
        static const char* f8[] = {"storm8:3", "storm8:7", "storm8:40", "digit:xm1", "digit:x", "tuple:r", "tuple:r+1", "tuple:r-1", "tuple:0", "tuple:1", "tuple:x", "const:255", "const:0", "carry:0", "carry:1", "tuple:xd:m1:m1:7:0", "tuple:xd:m1:m1:0:9", "tuple:xd:m1:m1:m1:m1", "tuple:xd:m1:m1:1:0", "tuple:xd:m1:m2:m1:0"};
        static const char* f32[] = {"storm32:2", "storm32:9", "storm32:60", "fr:r-1", "fr:r", "fr:r+1", "fr:0", "fr:r-1hi", "const:255", "const:0", "const:127"};
        static const char* f48[] = {"storm48:2", "storm48:11", "fq:q-1", "fq:q", "fq:q+1", "fq:0", "fq:q-1hi", "sign:0", "sign:1", "sign:254", "const:255", "const:0", "torsion1:3", "torsion2:5", "torsion1:8", "torsion2:12", "nostorm1:40", "nostorm2:25", "nostorm1:2000"};
        auto faults = [&](const char** tab, size_t nt) { std::vector<std::string> v; if (r.chance(1, 2)) return v; int k = r.range(1, 3); for (int i = 0; i < k; i++) v.push_back(tab[r.below(nt)]); return v; };
        static const char* kcodes[] = {"0", "1", "2", "r-1", "r", "r+1", "2r", "2r+1", "max", "2^255", "2^64", "2^64+3", "2^64-1", "2^100+12345", "2^128-1", "2^128", "2^192", "2^32", "2^63", "2^127+1", "xd:x:0:0:0+r", "xd:x:5:0:0+r", "xd:xp1:0:0:1+r", "xd:m1:m1:0:0", "xd:1:0:0:0+r", "xd:0:1:0:m1+r", "xd:m1:0:0:0+r", "xd:x:m1:0:0+r"};
        for (int i = 0; i < n; i++) {
            int k = r.range(0, 9); int64_t ss = (int64_t) (r.next() >> 1);
            if (focus == 7) k = r.chance(3, 4) ? r.range(4, 6) : k;
            if (focus == 10) k = r.chance(3, 4) ? (r.chance(1, 2) ? r.range(0, 3) : r.range(7, 9)) : k;
            if (k <= 1) { int which = r.range(0, 3); p.ops.push_back({"ZP", {ss, which}, which == 2 ? faults(f8, 20) : which == 3 ? faults(f48, 7) : faults(f32, 11)}); }
            else if (k <= 3) p.ops.push_back({"GEN", {ss, r.range(0, 1), r.range(0, 1)}, faults(f48, r.chance(1, 6) ? 19 : 18)});
            else if (k <= 5) p.ops.push_back({"GTR", {ss, (int64_t) r.below(8), r.chance(1, 4), r.chance(1, 3)}, faults(f8, 20)});
            else if (k == 6) p.ops.push_back({"GTPOW", {(int64_t) r.below(8), r.chance(1, 3) ? 1 + 2 * (int64_t) r.below(3) : 0}, {r.chance(1, 3) ? "x" + rhex(r, 32) : std::string(kcodes[r.below(28)])}});
            else if (k == 7) {
                std::string h = rhex(r, 32); int m = r.range(0, 7);
                Bn v; if (m == 0) v = K().r; else if (m == 1) v = Bn::sub(K().r, Bn(1)); else if (m == 2) v = Bn::add(K().r, Bn(1)); else if (m == 3) v = Bn::add(K().r, Bn(1).shl(255)); else if (m == 4) v = Bn::sub(Bn(1).shl(256), Bn(1)); else if (m == 5) v = Bn::sub(Bn(1).shl(255), Bn(1));
                if (m <= 5) { uint8_t b[32]; v.to_be(b, 32); h = hex(b, 32); }
                p.ops.push_back({"HASHS", {}, {h}});
            } else {
                int g = r.range(0, 1); std::string h = rhex(r, g ? 96 : 48); int m = r.range(0, 5);
                if (m <= 2) { uint8_t b[96]; memset(b, 0, 96); Bn v = m == 0 ? K().q : m == 1 ? Bn::sub(K().q, Bn(1)) : Bn::add(K().q, Bn(5)); v.to_be(b, 48); if (g) v.to_be(b + 48, 48); b[0] |= (uint8_t) (r.below(8) << 5); h = hex(b, g ? 96 : 48); }
                if (g == 1 && r.chance(1, 6)) {   // G2 candidates x = a + b*u with x^3 + b inside the base field (square in Fq2 whatever its symbol in Fq), reached directly or after 1-2 increments
                    static const char* SP[8][2] = {
                        {"1088d9c350fa55f15aea762b72fca5df7793bfbdbb1d585b091c21229640cf46cbfeb7a5e087ada8be33b33b21aba6a5", "13939d412ca1c789a091250e8fe4602442d6cb5c6ed4e94bdfc9e3b11fcff4545f811cb929645f8b6facaa5090e5e946"},
                        {"1270d6dfc4ef038797735fea18659f182c3f3becfdc390b78a835f5176fc2ce05273de306b286a1fd0d7a7ca8874d588", "055490af8101e89a95c5fb986980a81fbc428d42fa88269287f26aee175f0cd2bb9d58e4f543bbcfbcf74d7a5adad122"},
                        {"0211fee5d6064de8d7a8db74e67c74d226842e4a0faf68b9b8fa29ca0fa3b7a7a6a6f3325f47309f94001c4ce430b690", "12904140c555663f29ef41d0deea959ea9f559fcf0b3786801b5577d00e266d06a5ccc2cbe99854ab0d26ee6fa928907"},
                        {"0cd3a74cb147ec8f883603a87329bae935f71baa1bbf6bdbbffbaafc756948985911bde58d262de94c87d39ef82e81c0", "0ff9a67adf8960ad1eab5cd83b788b660a4de3e4ce9fb6a85473da68d3285151e9c329a8b59a59699893588c860a7da2"},
                        {"12f83d6e5adfd2a6510fd6b4a1f9dd1eea28f5842ab6ac27cac09acdb54a5b336722962130703e9fb2c4601baa120fa4", "0427e323f56ae7eaea80db0684ab56166f05571896af0dea41fad2962f927291ab721ab08e1a11f0c18c6da1cd4944b7"},
                        {"0154812674704039927ed94a9f4bfad948642b16943cd82ff2f95bf3ce08ae2926e9df0a3a2ff048e38e4ef984a33355", "19920b30fe9e6246635a8ce2141cb03e71f2f9c4b6307bad0f967bcc0ca02f4d03499f8452e1fbb062d1c049282fe558"},
                        {"027c54abede1c1e9c79b3e3256cf13a3f1fdf2dbfa526de499872d112cc12f0d40b96946a3034be3083aa46687d069df", "13e630087b1427081f1af1fac2e1dac48334bb82adbfb00e372139f35e2503ddb65b9045c5bc647a02ff5f56c9f0b073"},
                        {"163417b46d0a9681452037c92bf215f4d44b5781939cb370d3f41542c5bc4b480ff61cfc979b3727196c226f5d72096e", "0ba83d64339bb47e8cc05570f3d90ebdec2fc96a6bbb69f5f74fd9ec9c2ecc16c5a0ff6d53650fc77de6002da0485923"}};
                    size_t si = r.below(8); Bn a = Bn::from_hex(SP[si][0]), bb = Bn::from_hex(SP[si][1]); a = Bn::sub(a, Bn(r.below(3)));
                    uint8_t hb[96]; bb.to_be(hb, 48); a.to_be(hb + 48, 48); h = hex(hb, 96);
                }
                if (g == 0 && r.chance(1, 10)) h = long_walk_digest((unsigned) r.below(4));   // a walk of 31..34 increments
                int idm = r.chance(1, 2); p.ops.push_back({"HASHC", {g, idm}, {h}});
                // related consecutive inputs: the next hash differs from this one only in its trailing (or leading) bytes
                if (r.chance(1, 2)) { std::string h2 = h; size_t at = r.chance(3, 4) ? h2.size() - 2 - 2 * r.below(16) : 2 * r.below(8); h2[at] = h2[at] == 'f' ? '0' : 'f'; p.ops.push_back({"HASHC", {g, idm}, {h2}}); }
            }
        }
        return p;
    }
    void run(const Plan& plan, RunEnv& env) override { SampleRun run(env, plan); run.run(); }
    std::vector<Op> simplify_op(const Plan& p, size_t i) override {
        std::vector<Op> out; const Op& op = p.ops[i];
        if (op.kind != "HASHS" && op.kind != "HASHC" && op.kind != "GTPOW") for (size_t k = 0; k < op.s.size(); k++) { Op o = op; o.s.erase(o.s.begin() + (long) k); out.push_back(o); }
        for (size_t k = 1; k < op.a.size(); k++) if (op.a[k] != 0) { Op o = op; o.a[k] = 0; out.push_back(o); }
        return out;
    }
};

static ScenarioReg reg_sample(new SampleScenario());

} // namespace jv
