// sc_pairs.cpp - scenario "pairs": a party keeps long-lived arrays of pair records (the per-pair
// running point and coefficient cursor live inside them) and reuses them across products without
// ever re-initialising them, re-pointing records, re-preparing points, mixing plain and prepared
// pairs (C08).
#include "core.hpp"
#include "wkd_model.hpp"

namespace jv {

struct PairsRun {
    RunEnv& env; W w; Rep& R; int view; const Plan& plan;
    static const size_t NP = 6; size_t NR = 5;   // NR: length of the two record arrays (plan cfg "nr": 5 normally, 20 / 40 / 70 in the long-list runs)
    std::vector<Buf> g1, g2; std::vector<Buf> prep_src;       // prep_src: copy of the G2 point the prepared entry was computed from
    // the prepared points live in ONE table, entry after entry, each as large as the caller of this view declares the type (the C mirror
    // struct through the C API): what a routine writes beyond its entry lands in the next entry or in the canary behind the table
    Buf preptab; size_t prep_sz = 0; std::vector<uint8_t*> prep; static const size_t PREP_CANARY = 1024;
    std::vector<bool> prep_set;
    Buf arec, prec; std::vector<int> a_g1, a_g2, p_g1, p_pr;      // -1 = record never set
    PairsRun(RunEnv& e, const Plan& p) : env(e), w(e), R(*e.rep), view(e.view), plan(p) {
        NR = (size_t) std::max<int64_t>(1, std::min<int64_t>(p.c("nr", 5), 80)); a_g1.assign(NR, -1); a_g2.assign(NR, -1); p_g1.assign(NR, -1); p_pr.assign(NR, -1);
        for (size_t i = 0; i < NP; i++) { g1.emplace_back(R.sz(JV_SZ_G1A)); g2.emplace_back(R.sz(JV_SZ_G2A)); prep_src.emplace_back(R.sz(JV_SZ_G2A)); prep_set.push_back(false);
            R.jv_const_get(JV_EK_G1A, i % 2, g1[i]); R.jv_const_get(JV_EK_G2A, (i + 1) % 2, g2[i]); }
        prep_sz = R.jv_g2p_size(view); preptab.alloc(NP * prep_sz + (R.info.sanitized ? 0 : PREP_CANARY), 0xEE); for (size_t i = 0; i < NP; i++) prep.push_back(preptab.p + i * prep_sz);
        arec.alloc(NR * R.jv_pair_size(view, 0), 0xEE); prec.alloc(NR * R.jv_pair_size(view, 1), 0xEE); R.jv_pair_init(view, arec, NR, 0); R.jv_pair_init(view, prec, NR, 1);   // exact-size arrays of the record type the caller of this view declares
    }
    std::string gc(const GTv& v) { return w.ct(v); }
    GTv single(const void* p, const void* q) { GTv o; env.lib_calls++; R.jv_pairing(view, o.b, p, q); return o; }
    bool is_inf1(const void* a) { uint8_t c[97]; R.jv_g1a_canon(c, a); return c[0] == 1; }
    bool is_inf2(const void* a) { uint8_t c[193]; R.jv_g2a_canon(c, a); return c[0] == 1; }

    void op_point(const Op& op, int g) {
        size_t idx = (size_t) op.arg(0) % NP; int src = (int) op.arg(1) % 5;
        std::vector<uint8_t> k = unhex(op.s.empty() ? "01" : op.s[0]); k.resize(32);
        Buf tmp(g == 1 ? R.sz(JV_SZ_G1A) : R.sz(JV_SZ_G2A)); env.lib_calls += 2;
        if (src == 4) {
            // the caller marks the object as the identity by setting its flag; the coordinates stay what they were (every predicate of the
            // library reads the flag only, so this object IS an identity element)
            uint8_t c[193]; if (g == 1) R.jv_g1a_canon(c, g1[idx].p); else R.jv_g2a_canon(c, g2[idx].p);
            if (c[0] == 1) return;
            if (g == 1) R.jv_g1a_set_xy(g1[idx].p, c + 1, 2); else { uint8_t be[192]; memcpy(be, c + 49, 48); memcpy(be + 48, c + 1, 48); memcpy(be + 96, c + 145, 48); memcpy(be + 144, c + 97, 48); R.jv_g2a_set_xy(g2[idx].p, be, 2); }
            env.count("fault:identity_flag_set_on_object_holding_coordinates"); env.logf("P%d %zu flagged", g, idx); return;
        }
        if (src == 0) R.jv_const_get(g == 1 ? JV_EK_G1A : JV_EK_G2A, 0, tmp);
        else if (src == 1) R.jv_const_get(g == 1 ? JV_EK_G1A : JV_EK_G2A, 1, tmp);
        else if (g == 1) { Buf gen(R.sz(JV_SZ_G1A)); R.jv_const_get(JV_EK_G1A, 1, gen); G1v p; R.jv_g1_multiply_affine(view, p.b, gen, k.data()); R.jv_g1affine_from_projective(view, tmp, p.b); }
        else { Buf gen(R.sz(JV_SZ_G2A)); R.jv_const_get(JV_EK_G2A, 1, gen); G2v p; R.jv_g2_multiply_affine(view, p.b, gen, k.data()); R.jv_g2affine_from_projective(view, tmp, p.b); }
        memcpy(g == 1 ? g1[idx].p : g2[idx].p, tmp.p, tmp.n);     // in place: records pointing here now see the new value
        if (src == 0) env.count("fault:pool_point_replaced_by_identity"); else env.count("op:pool_point_set");
        env.logf("P%d %zu src%d", g, idx, src);
    }
    void op_prep(const Op& op) {
        size_t pi = (size_t) op.arg(0) % NP, gi = (size_t) op.arg(1) % NP; env.lib_calls++;
        // neighbours must survive: what prepare writes is its own entry and nothing else
        std::vector<uint8_t> before(preptab.p, preptab.p + preptab.n);
        // the destination held a table before; when it is prepared again from the very point it was prepared from, the caller may meanwhile have used
        // part of the (20 KiB) object as scratch: whatever is there, prepare writes the whole table
        if (prep_set[pi] && memcmp(prep_src[pi].p, g2[gi].p, g2[gi].n) == 0 && (op.arg(0) + op.arg(1) + (int64_t) env.step) % 2 == 0) {
            size_t from = prep_sz / 3 + ((size_t) env.step * 131) % (prep_sz / 3); memset(prep[pi] + from, 0x5A, prep_sz - from - 16 > 0 ? (prep_sz - from) / 2 : 0);
            before.assign(preptab.p, preptab.p + preptab.n); env.count("fault:prepared_object_partly_overwritten_before_re_prepare_from_the_same_point");
        }
        R.jv_g2prepared_prepare(view, prep[pi], g2[gi]); memcpy(prep_src[pi].p, g2[gi].p, g2[gi].n);
        for (size_t off = 0; off < preptab.n; off++) if ((off < pi * prep_sz || off >= (pi + 1) * prep_sz) && preptab.p[off] != before[off])
            env.fail("C08", "prepare:writes-only-its-own-object", strf("g2prepared_prepare on table entry %zu (a %zu-byte object as this caller declares it) changed byte %zu of %s", pi, prep_sz, off, off >= NP * prep_sz ? "the memory behind the table" : strf("entry %zu", off / prep_sz).c_str()));
        if (prep_set[pi]) env.count("fault:prepared_slot_re_prepared_from_another_point");
        prep_set[pi] = true;
        env.check((R.jv_g2prepared_is_zero(view, prep[pi]) != 0) == is_inf2(g2[gi]), "C08", "prepare:is_zero", "g2prepared_is_zero disagrees with the point prepared");
        env.logf("PREP %zu from %zu", pi, gi);
    }
    void op_arec(const Op& op) { size_t s = (size_t) op.arg(0) % NR; a_g1[s] = (int) ((size_t) op.arg(1) % NP); a_g2[s] = (int) ((size_t) op.arg(2) % NP); R.jv_apair_set(view, arec, s, g1[(size_t) a_g1[s]], g2[(size_t) a_g2[s]]); env.count("op:affine_record_pointed"); }
    void op_prec(const Op& op) {
        size_t s = (size_t) op.arg(0) % NR; size_t pi = (size_t) op.arg(2) % NP; if (!prep_set[pi]) return;
        p_g1[s] = (int) ((size_t) op.arg(1) % NP); p_pr[s] = (int) pi; R.jv_ppair_set(view, prec, s, g1[(size_t) p_g1[s]], prep[pi]); env.count("op:prepared_record_pointed");
    }
    void op_prod(const Op& op) {
        size_t a0 = (size_t) op.arg(0) % NR, na = (size_t) op.arg(1) % (NR + 1), p0 = (size_t) op.arg(2) % NR, np = (size_t) op.arg(3) % (NR + 1);
        if (a0 + na > NR) na = NR - a0; if (p0 + np > NR) np = NR - p0;
        for (size_t i = 0; i < na; i++) if (a_g1[a0 + i] < 0) { na = i; break; }
        for (size_t i = 0; i < np; i++) if (p_pr[p0 + i] < 0) { np = i; break; }
        GTv out; env.lib_calls++;
        R.jv_pairing_sum(view, out.b, na ? arec.p + a0 * R.jv_pair_size(view, 0) : nullptr, na, np ? prec.p + p0 * R.jv_pair_size(view, 1) : nullptr, np);
        // the two input members of every record still point where the caller pointed them (a routine that re-orders or marks the caller's records
        // keeps state between calls in them)
        for (size_t i = 0; i < na; i++) { const void *pg1, *pg2; R.jv_pair_get(view, arec.p, a0 + i, 0, &pg1, &pg2); if (pg1 != (const void*) g1[(size_t) a_g1[a0 + i]].p || pg2 != (const void*) g2[(size_t) a_g2[a0 + i]].p) env.fail(env.focus == "C20" ? "C20" : "C08", "records:inputs-left-as-the-caller-set-them", strf("after a product over %zu affine and %zu prepared pairs, affine record %zu no longer points at the elements the caller put there", na, np, a0 + i)); }
        for (size_t i = 0; i < np; i++) { const void *pg1, *pg2; R.jv_pair_get(view, prec.p, p0 + i, 1, &pg1, &pg2); if (pg1 != (const void*) g1[(size_t) p_g1[p0 + i]].p || pg2 != (const void*) prep[(size_t) p_pr[p0 + i]]) env.fail(env.focus == "C20" ? "C20" : "C08", "records:inputs-left-as-the-caller-set-them", strf("after a product over %zu affine and %zu prepared pairs, prepared record %zu no longer points at the elements the caller put there", na, np, p0 + i)); }
        GTv want = w.gtone(); int idents = 0; std::string shape;
        for (size_t i = 0; i < na; i++) { void* P = g1[(size_t) a_g1[a0 + i]]; void* Q = g2[(size_t) a_g2[a0 + i]]; bool id = is_inf1(P) || is_inf2(Q); idents += id; shape += id ? "a0" : "a"; want = w.gtmul(want, single(P, Q)); }
        for (size_t i = 0; i < np; i++) { void* P = g1[(size_t) p_g1[p0 + i]]; void* Q = prep_src[(size_t) p_pr[p0 + i]]; bool id = is_inf1(P) || is_inf2(Q); idents += id; shape += id ? "p0" : "p"; want = w.gtmul(want, single(P, Q)); }
        if (idents) env.count("probe:product_with_identity_member");
        if (na && np) env.count("probe:product_mixing_plain_and_prepared");
        if (na + np == 0) env.count("probe:empty_product");
        for (size_t i = 0; i < np; i++) for (size_t j = i + 1; j < np; j++) if (p_pr[p0 + i] == p_pr[p0 + j]) env.count("probe:one_prepared_point_shared_by_two_records");
        env.logf("PROD %s out=%s", shape.c_str(), sha_hex(out.b, 576, 8).c_str());
        env.check(gc(out) == gc(want), "C08", "product:equals-product-of-singles", strf("pairing product over records [%s] (affine slice %zu+%zu, prepared slice %zu+%zu, reused without re-initialisation) != product of the single pairings", shape.c_str(), a0, na, p0, np));
        // pairs containing an identity contribute the neutral element: a single pairing with an identity is 1
        env.add_case("prod " + shape, na + np > 1 || idents > 0);
    }
    void op_single(const Op& op) {
        size_t gi = (size_t) op.arg(0) % NP, pi = (size_t) op.arg(1) % NP; if (!prep_set[pi]) return;
        GTv a, b = single(g1[gi], prep_src[pi]); env.lib_calls++; R.jv_prepared_pairing(view, a.b, g1[gi], prep[pi]);
        env.check(gc(a) == gc(b), "C08", "prepared:equals-plain", "pairing with a precomputed second argument != plain pairing");
        if (is_inf1(g1[gi]) || is_inf2(prep_src[pi])) env.check(gc(a) == gc(w.gtone()), "C08", "identity:neutral", "pairing with an identity argument is not the neutral element");
        env.logf("SINGLE %s", sha_hex(a.b, 576, 8).c_str()); env.add_case(strf("single inf%d", is_inf1(g1[gi]) || is_inf2(prep_src[pi])), true);
    }
    void run() {
        for (size_t i = 0; i < plan.ops.size(); i++) {
            const Op& op = plan.ops[i]; env.step = (int) i;
            if (op.kind == "P1") op_point(op, 1); else if (op.kind == "P2") op_point(op, 2); else if (op.kind == "PREP") op_prep(op);
            else if (op.kind == "AREC") op_arec(op); else if (op.kind == "PREC") op_prec(op); else if (op.kind == "PROD") op_prod(op); else if (op.kind == "SINGLE") op_single(op);
        }
    }
};

struct PairsScenario : Scenario {
    const char* name() const override { return "pairs"; }
    Plan generate(uint64_t seed, const std::map<std::string, int64_t>&) override {
        Rng r(seed); Plan p; p.scenario = name();
        auto rh = [&]() { std::vector<uint8_t> b(32); r.fill(b.data(), 32); return hex(b.data(), 32); };
        for (int i = 0; i < 3; i++) { p.ops.push_back({"P1", {i, 2}, {rh()}}); p.ops.push_back({"P2", {i, 2}, {rh()}}); }
        p.ops.push_back({"PREP", {0, 0}, {}}); p.ops.push_back({"PREP", {1, 1}, {}});
        for (int i = 0; i < 3; i++) { p.ops.push_back({"AREC", {i, (int64_t) r.below(6), (int64_t) r.below(6)}, {}}); p.ops.push_back({"PREC", {i, (int64_t) r.below(6), (int64_t) r.below(2)}, {}}); }
        // long lists: one run in ten has record arrays of 20, 40 or 70 entries, all set, and products over most of them (batching, bit
        // masks and per-list cursors in the product routine have their boundaries at 16, 32 and 64 pairs)
        int64_t nr = 5; if (r.chance(1, 16)) { int64_t ch[] = {20, 40, 70}; nr = ch[r.below(3)]; p.cfg["nr"] = nr;
            for (int64_t i = 3; i < nr; i++) { p.ops.push_back({"AREC", {i, (int64_t) r.below(6), (int64_t) r.below(6)}, {}}); p.ops.push_back({"PREC", {i, (int64_t) r.below(6), (int64_t) r.below(2)}, {}}); }
            for (int j = 0; j < 2; j++) p.ops.push_back({"PROD", {(int64_t) r.below(3), j == 1 ? (int64_t) r.below(4) : nr - (int64_t) r.below(4), (int64_t) r.below(3), j == 0 ? (int64_t) r.below(4) : nr - (int64_t) r.below(4)}, {}});
            return p; }
        int n = r.range(4, 22);
        for (int i = 0; i < n; i++) {
            int k = r.range(0, 11);
            if (k == 0) p.ops.push_back({"P1", {(int64_t) r.below(6), r.range(0, 4)}, {rh()}});
            else if (k == 1) p.ops.push_back({"P2", {(int64_t) r.below(6), r.range(0, 4)}, {rh()}});
            else if (k == 2) p.ops.push_back({"PREP", {(int64_t) r.below(6), (int64_t) r.below(6)}, {}});
            else if (k == 3) p.ops.push_back({"AREC", {(int64_t) r.below(5), (int64_t) r.below(6), (int64_t) r.below(6)}, {}});
            else if (k == 4) p.ops.push_back({"PREC", {(int64_t) r.below(5), (int64_t) r.below(6), (int64_t) r.below(6)}, {}});
            else if (k == 5) p.ops.push_back({"SINGLE", {(int64_t) r.below(6), (int64_t) r.below(6)}, {}});
            else p.ops.push_back({"PROD", {(int64_t) r.below(3), (int64_t) r.below(5), (int64_t) r.below(3), (int64_t) r.below(5)}, {}});
        }
        return p;
    }
    void run(const Plan& plan, RunEnv& env) override { PairsRun run(env, plan); run.run(); }
    std::vector<Op> simplify_op(const Plan& p, size_t i) override {
        std::vector<Op> out; const Op& op = p.ops[i];
        for (size_t k = 0; k < op.a.size(); k++) if (op.a[k] != 0) { Op o = op; o.a[k] = op.a[k] - 1; out.push_back(o); Op o2 = op; o2.a[k] = 0; out.push_back(o2); }
        return out;
    }
};

static ScenarioReg reg_pairs(new PairsScenario());

} // namespace jv
