// trap.cpp - S6/S7 traps for C20: (1) write trap: after load, every writable PT_LOAD page of a
// replica (and the arena holding inputs shared between tasks) is made read-only; a later write is
// a SIGSEGV at the writing instruction, reported as "mutable state after load". (2) environment
// trap: libc entry points that a freestanding library must never reach (allocation, stdio, write)
// fail-and-report when entered while a thread's "inside a library call" flag is set.
#ifndef _GNU_SOURCE
#define _GNU_SOURCE
#endif
#include <dlfcn.h>
#include <link.h>
#include <signal.h>
#include <stdio.h>
#include <stdlib.h>
#include <string.h>
#include <sys/mman.h>
#include <unistd.h>
#include <vector>
#include <string>
#include "trap.hpp"

namespace jv {

thread_local int tl_in_lib = 0;

struct Range { uintptr_t lo, hi; char label[64]; uintptr_t base; };
static Range g_ranges[64]; static int g_nranges = 0;
static bool g_handler = false;

static void put(const char* s) { ssize_t r = write(2, s, strlen(s)); (void) r; }
static void puthex(uintptr_t v) { char b[20]; int n = 0; b[n++] = '0'; b[n++] = 'x'; for (int i = 60; i >= 0; i -= 4) { int d = (int) ((v >> i) & 15); if (d || n > 2 || i == 0) b[n++] = (char) (d < 10 ? '0' + d : 'a' + d - 10); } b[n] = 0; put(b); }

static void on_segv(int, siginfo_t* si, void*) {
    uintptr_t a = (uintptr_t) si->si_addr;
    for (int i = 0; i < g_nranges; i++) if (a >= g_ranges[i].lo && a < g_ranges[i].hi) {
        put("TRAP write to read-only "); put(g_ranges[i].label); put(" at offset "); puthex(a - g_ranges[i].base);
        Dl_info di; if (dladdr((void*) a, &di) && di.dli_sname) { put(" symbol "); put(di.dli_sname); }
        put("\n"); _exit(78);
    }
    put("SIGSEGV outside trapped ranges at "); puthex(a); put("\n");
    signal(SIGSEGV, SIG_DFL); raise(SIGSEGV);
}

static void install_handler() {
    if (g_handler) return; g_handler = true;
    static char altstack[1 << 16]; stack_t ss; ss.ss_sp = altstack; ss.ss_size = sizeof(altstack); ss.ss_flags = 0; sigaltstack(&ss, nullptr);
    struct sigaction sa; memset(&sa, 0, sizeof(sa)); sa.sa_sigaction = on_segv; sa.sa_flags = SA_SIGINFO | SA_ONSTACK; sigaction(SIGSEGV, &sa, nullptr);
}

void trap_add_range(void* lo, size_t len, const char* label, void* base) {
    if (g_nranges >= 64) return;
    Range& r = g_ranges[g_nranges++]; r.lo = (uintptr_t) lo; r.hi = r.lo + len; r.base = (uintptr_t) base; strncpy(r.label, label, 63); r.label[63] = 0;
}

struct FindCtx { const char* path; std::vector<std::pair<uintptr_t, uintptr_t>> segs; uintptr_t base; bool has_tls; };
static int phdr_cb(struct dl_phdr_info* info, size_t, void* data) {
    FindCtx* c = (FindCtx*) data;
    if (!info->dlpi_name || strcmp(info->dlpi_name, c->path) != 0) return 0;
    c->base = info->dlpi_addr;
    for (int i = 0; i < info->dlpi_phnum; i++) {
        const ElfW(Phdr)& ph = info->dlpi_phdr[i];
        if (ph.p_type == PT_TLS && ph.p_memsz > 0) c->has_tls = true;
        if (ph.p_type == PT_LOAD && (ph.p_flags & PF_W)) c->segs.push_back({info->dlpi_addr + ph.p_vaddr, info->dlpi_addr + ph.p_vaddr + ph.p_memsz});
    }
    return 1;
}

// Returns the number of bytes write-protected; sets has_tls when the module has a PT_TLS segment.
size_t trap_protect_module(const char* path, const char* label, bool& has_tls) {
    install_handler();
    FindCtx c; c.path = path; c.base = 0; c.has_tls = false;
    dl_iterate_phdr(phdr_cb, &c);
    has_tls = c.has_tls; size_t total = 0; long pg = sysconf(_SC_PAGESIZE);
    for (auto& s : c.segs) {
        uintptr_t lo = s.first & ~(uintptr_t) (pg - 1), hi = (s.second + (uintptr_t) pg - 1) & ~(uintptr_t) (pg - 1);
        if (mprotect((void*) lo, hi - lo, PROT_READ) == 0) { trap_add_range((void*) lo, hi - lo, label, (void*) c.base); total += hi - lo; }
    }
    return total;
}

void* trap_arena_alloc(size_t len) {
    install_handler();
    long pg = sysconf(_SC_PAGESIZE); len = (len + (size_t) pg - 1) & ~(size_t) (pg - 1);
    void* p = mmap(nullptr, len, PROT_READ | PROT_WRITE, MAP_PRIVATE | MAP_ANONYMOUS, -1, 0);
    return p == MAP_FAILED ? nullptr : p;
}
void trap_arena_seal(void* p, size_t len, const char* label) {
    long pg = sysconf(_SC_PAGESIZE); len = (len + (size_t) pg - 1) & ~(size_t) (pg - 1);
    mprotect(p, len, PROT_READ); trap_add_range(p, len, label, p);
}
void trap_arena_free(void* p, size_t len) {
    long pg = sysconf(_SC_PAGESIZE); len = (len + (size_t) pg - 1) & ~(size_t) (pg - 1);
    for (int i = 0; i < g_nranges; i++) if (g_ranges[i].lo == (uintptr_t) p) { g_ranges[i] = g_ranges[--g_nranges]; break; }
    munmap(p, len);
}

void env_trap(const char* what) {
    tl_in_lib = 0;
    put("ENVTRAP library call reached "); put(what); put("\n");
    _exit(79);
}

} // namespace jv

// ---------------------------------------------------------------- interposed libc entry points (plain flavour only)
#ifndef JV_SAN
extern "C" {
void* __libc_malloc(size_t); void* __libc_calloc(size_t, size_t); void* __libc_realloc(void*, size_t); void __libc_free(void*); void* __libc_memalign(size_t, size_t);
void* malloc(size_t n) { if (jv::tl_in_lib) jv::env_trap("malloc"); return __libc_malloc(n); }
void* calloc(size_t a, size_t b) { if (jv::tl_in_lib) jv::env_trap("calloc"); return __libc_calloc(a, b); }
void* realloc(void* p, size_t n) { if (jv::tl_in_lib) jv::env_trap("realloc"); return __libc_realloc(p, n); }
void free(void* p) { if (jv::tl_in_lib) jv::env_trap("free"); __libc_free(p); }
int posix_memalign(void** out, size_t al, size_t n) { if (jv::tl_in_lib) jv::env_trap("posix_memalign"); void* p = __libc_memalign(al, n); if (!p) return 12; *out = p; return 0; }
void* aligned_alloc(size_t al, size_t n) { if (jv::tl_in_lib) jv::env_trap("aligned_alloc"); return __libc_memalign(al, n); }
void* memalign(size_t al, size_t n) { if (jv::tl_in_lib) jv::env_trap("memalign"); return __libc_memalign(al, n); }
}
#endif
