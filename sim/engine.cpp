// engine.cpp - batches over forked workers, classification of dead workers, ddmin shrinking,
// replay files, evidence. The only use of real time is the per-unit watchdog and wall_s.
#include <dlfcn.h>
#include <errno.h>
#include <fcntl.h>
#include <poll.h>
#include <signal.h>
#include <sys/stat.h>
#include <sys/time.h>
#include <sys/wait.h>
#include <time.h>
#include <unistd.h>
#include <algorithm>
#include "engine.hpp"
#include "sched.hpp"
#include "trap.hpp"
#include "armsim.hpp"

namespace jv {

std::map<std::string, int64_t> g_cli_knobs;
thread_local Stream* tl_stream = nullptr;
thread_local HashStub* tl_hash = nullptr;
thread_local Rep* tl_env_rep = nullptr; thread_local int tl_env_view = 0; thread_local const char* tl_list_modified = nullptr;

extern "C" void jv_rand_cb(void* buf, size_t n) {
    OutOfLib out;      // simulator code may allocate; the environment trap only concerns the library
    sched_callback_yield();
    if (!tl_stream) abort();
    if (tl_stream->watch_lo && (const uint8_t*) buf >= tl_stream->watch_lo && (const uint8_t*) buf < tl_stream->watch_hi) tl_stream->watch_hits++;
    tl_stream->serve(buf, n);
}
extern "C" void jv_hash_cb(void* out, size_t outlen, const void* in, size_t inlen) {
    OutOfLib guard;
    sched_callback_yield();
    if (!tl_hash) abort();
    tl_hash->fill(out, outlen, in, inlen);
}

static std::vector<Scenario*>& registry() { static std::vector<Scenario*> r; return r; }
void register_scenario(Scenario* s) { registry().push_back(s); }
Scenario* find_scenario(const std::string& name) { for (auto s : registry()) if (name == s->name()) return s; return nullptr; }

static double now_s() { struct timespec ts; clock_gettime(CLOCK_MONOTONIC, &ts); return ts.tv_sec + ts.tv_nsec * 1e-9; }

std::string verif_root() { const char* e = getenv("JV_ROOT"); return e ? e : "/verif"; }
std::string flavour() {
#ifdef JV_SAN
    return "san";
#else
    return "plain";
#endif
}
std::string replica_dir() { const char* e = getenv("JV_BUILD_DIR"); const char* f = getenv("JV_REPLICA_FLAVOUR"); return std::string(e ? e : "") + "/" + (f ? std::string(f) : flavour()); }
// source-coverage replicas (bin/coverage.sh): every process that executed library code writes its counters before it leaves through _exit
static void cov_flush(Replicas& reps) {
    if (!getenv("JV_REPLICA_FLAVOUR")) return;
    for (auto r : reps.all) if (r->handle) { auto f = (int (*)(void)) dlsym(r->handle, "jv_cov_flush"); if (f) f(); }
}

void conc_protect_modules(Replicas& reps);   // sc_conc.cpp
static std::string g_arm_note;
int g_buf_guard = 0;
// All replica sets are loaded through here: the dlopen-ed builds plus the interpreted ARM back ends (C03).
static bool load_all(Replicas& reps, std::string& err) {
    if (!reps.load(replica_dir(), err)) return false;
    const char* repo = getenv("JV_REPO");
    g_arm_note = arm_add_pseudo_replicas(reps, repo ? repo : "/repo");
    if (getenv("JV_DEBUG")) fprintf(stderr, "arm: %s\n", g_arm_note.c_str());
    return true;
}

RunResult execute_plan(const Plan& plan, Replicas& reps, const std::string& rep_label, int view, bool verbose, const std::string& focus, bool allow_known) {
    RunEnv env; env.reps = &reps; env.rep = reps.by_label(rep_label); env.view = view; env.verbose = verbose; env.focus = focus; env.allow_known = allow_known;
    Scenario* sc = find_scenario(plan.scenario);
    if (!sc || !env.rep) { env.res.violated = true; env.res.v = {"HARNESS", "setup", "unknown scenario or replica: " + plan.scenario + " / " + rep_label, 0}; return env.res; }
    env.rep->apply_dispatch();
    Stream* old_s = tl_stream; HashStub* old_h = tl_hash;
    tl_stream = &env.stream; tl_hash = &env.hash;
    const int* old_step = tl_step_ptr; tl_step_ptr = &env.step;
    Rep* old_rep = tl_env_rep; int old_view = tl_env_view; tl_env_rep = env.rep; tl_env_view = view; tl_list_modified = nullptr;
    env.logf("plan %s rep-independent", plan.scenario.c_str());
    int old_guard = g_buf_guard; g_buf_guard = (int) plan.c("guard", 0); if (g_buf_guard) env.count(g_buf_guard == 2 ? "fault:caller_objects_begin_at_start_of_mapped_memory" : "fault:caller_objects_end_at_end_of_mapped_memory");
    try {
        sc->run(plan, env);
    } catch (Violation& v) {
        env.res.violated = true; env.res.v = v;
        env.logf("VIOLATION %s %s step %d", v.prop.c_str(), v.oracle.c_str(), v.step);
    } catch (StreamOverrun& o) {
        env.res.violated = true;
        env.res.v = {"C10", "liveness:sampler-not-terminating", strf("a library call made %zu random requests without returning (bound: scripted answers + 256 fair ones)", o.requests), env.step};
        env.logf("VIOLATION liveness step %d", env.step);
    }
    g_buf_guard = old_guard;
    tl_stream = old_s; tl_hash = old_h; tl_step_ptr = old_step; tl_env_rep = old_rep; tl_env_view = old_view;
    env.rep->apply_dispatch();
    uint8_t d[32]; env.logsha.final(d); env.res.fingerprint = hex(d, 16);
    env.res.counters["steps"] += (uint64_t) env.step;
    env.res.counters["library_calls"] += env.lib_calls;
    env.res.counters["stream_requests"] += env.stream.total_requests;
    env.res.counters["stream_bytes"] += env.stream.total_bytes;
    env.res.counters["stream_scripted_answers_served"] += env.stream.scripted_served;
    return env.res;
}

// ---------------------------------------------------------------- (de)serialise results
static JsonP result_to_json(const RunResult& r) {
    auto j = Json::obj();
    j->setb("violated", r.violated);
    if (r.violated) { j->set("prop", r.v.prop); j->set("oracle", r.v.oracle); j->set("detail", r.v.detail); j->seti("step", r.v.step); }
    j->set("fp", r.fingerprint);
    auto c = Json::obj(); for (auto& kv : r.counters) c->seti(kv.first, (int64_t) kv.second); j->set("counters", c);
    std::string cs; for (auto& p : r.cases) { cs += strf("%016llx%c", (unsigned long long) p.first, p.second ? '+' : '-'); } j->set("cases", cs);
    if (!r.log_lines.empty()) { auto a = Json::arr(); for (auto& l : r.log_lines) a->push(Json::str(l)); j->set("log", a); }
    if (!r.sched.empty()) { std::string ss; for (auto& t : r.sched) { ss += t; ss += ' '; } j->set("sched", ss); }
    return j;
}
static RunResult result_from_json(const Json& j) {
    RunResult r; auto v = j.get("violated"); r.violated = v && v->b;
    if (r.violated) { r.v.prop = j.gets("prop"); r.v.oracle = j.gets("oracle"); r.v.detail = j.gets("detail"); r.v.step = (int) j.geti("step"); }
    r.fingerprint = j.gets("fp");
    auto c = j.get("counters"); if (c) for (auto& kv : c->o) r.counters[kv.first] = (uint64_t) kv.second->inum;
    std::string cs = j.gets("cases");
    for (size_t i = 0; i + 17 <= cs.size(); i += 17) r.cases.push_back({strtoull(cs.substr(i, 16).c_str(), nullptr, 16), cs[i + 16] == '+'});
    auto l = j.get("log"); if (l) for (auto& e : l->a) r.log_lines.push_back(e->s);
    { std::string ss = j.gets("sched"), cur; for (char c : ss) { if (c == ' ') { if (!cur.empty()) r.sched.push_back(cur); cur.clear(); } else cur += c; } if (!cur.empty()) r.sched.push_back(cur); }
    return r;
}

// ---------------------------------------------------------------- units
struct UnitPick { std::vector<std::string> reps; std::vector<int> views; };

static UnitPick pick(const Batch& b, uint64_t idx) {
    UnitPick p; size_t n = b.replicas.size();
    if (b.mode == "crossrep") { p.reps = b.replicas; p.views = {b.view >= 0 ? b.view : (int) (idx % 2)}; }
    else if (b.mode == "crossview") { p.reps = {b.replicas[idx % n]}; p.views = {0, 1}; }
    else { p.reps = {b.replicas[idx % n]}; p.views = {b.view >= 0 ? b.view : (int) ((idx / n) % 2)}; }   // single, duo, flipdispatch
    return p;
}

// duo plans: ops of plan A, a "||" marker, ops of plan B; B's configuration lives in cfg keys prefixed "B."
static void split_duo(const Plan& p, Plan& A, Plan& B) {
    A.scenario = B.scenario = p.scenario; bool second = false;
    for (auto& kv : p.cfg) { if (kv.first.compare(0, 2, "B.") == 0) B.cfg[kv.first.substr(2)] = kv.second; else A.cfg[kv.first] = kv.second; }
    for (auto& op : p.ops) { if (op.kind == "||") { second = true; continue; } if (op.kind == "SCHED") continue; (second ? B : A).ops.push_back(op); }
    if (B.cfg.empty()) B.cfg = A.cfg;
}
static Plan join_duo(const Plan& A, const Plan& B) {
    Plan p = A; for (auto& kv : B.cfg) p.cfg["B." + kv.first] = kv.second;
    p.ops.push_back({"||", {}, {}}); for (auto& op : B.ops) p.ops.push_back(op); return p;
}

static std::string first_log_difference(const RunResult& a, const RunResult& b) {
    size_t n = std::min(a.log_lines.size(), b.log_lines.size());
    for (size_t i = 0; i < n; i++) if (a.log_lines[i] != b.log_lines[i]) return strf("first differing log line #%zu: [%s] vs [%s]", i, a.log_lines[i].c_str(), b.log_lines[i].c_str());
    return strf("logs have different lengths (%zu vs %zu)", a.log_lines.size(), b.log_lines.size());
}

// Execute one plan under a fixed (mode, replicas, views) choice. The merged
// result carries the counters/cases of the first execution.
static RunResult run_fixed(const Plan& plan, Replicas& reps, const std::string& mode, const UnitPick& p, const std::string& focus, bool verbose) {
    if (mode == "single") return execute_plan(plan, reps, p.reps[0], p.views[0], verbose, focus, false);
    if (mode == "duo") {
        // The schedules dimension for every property: two plans of the same scenario run as two caller threads under the
        // serialising seeded scheduler (preemption at every field multiplication and callback), each with its own model, stream
        // and oracles. A property oracle that fails here fails "for some interleaving of concurrent callers".
        Plan A, B; split_duo(plan, A, B);
        RunResult ra, rb; Scheduler sched; { uint64_t hh = hash64(A.to_json()->dump(false)); sched.p_switch_log2 = hh % 3 == 0 ? 62 : (uint32_t) (2 + (hh >> 8) % 17); }   // 62: coarse schedule, preemption only at the callbacks
        sched.add([&] { ra = execute_plan(A, reps, p.reps[0], p.views[0], verbose, focus, false); });
        sched.add([&] { rb = execute_plan(B, reps, p.reps[0], p.views[0], verbose, focus, false); });
        for (auto& op : plan.ops) if (op.kind == "SCHED") sched.set_list(op.s);   // explicit (minimised) schedule instead of the PRNG
        sched.run(hash64(B.to_json()->dump(false)));
        RunResult out = ra; out.sched = sched.taken;
        for (auto& kv : rb.counters) out.counters[kv.first] += kv.second;
        out.cases.insert(out.cases.end(), rb.cases.begin(), rb.cases.end());
        out.counters["fault:preemption_inside_library_call"] += sched.switches; out.counters["probe:yield_points_passed"] += sched.global_yield;
        out.fingerprint = sha_hex((ra.fingerprint + rb.fingerprint).data(), ra.fingerprint.size() + rb.fingerprint.size(), 16);
        if (ra.violated || rb.violated) {
            const RunResult& bad = ra.violated ? ra : rb;
            out.violated = true; out.v = bad.v; out.v.detail += strf(" [while another caller thread ran a second history concurrently: %llu context switches inside library calls]", (unsigned long long) sched.switches);
            return out;
        }
        // M-solo: each history alone must give the same log
        RunResult sa = execute_plan(A, reps, p.reps[0], p.views[0], false, focus, false), sb = execute_plan(B, reps, p.reps[0], p.views[0], false, focus, false);
        if (!sa.violated && !sb.violated && (sa.fingerprint != ra.fingerprint || sb.fingerprint != rb.fingerprint)) {
            out.violated = true; out.v = {"C20", "M-solo:concurrent-equals-sequential", "a history gives a different event log when another caller thread runs concurrently", 0};
        }
        return out;
    }
    if (mode == "flipdispatch") {
        // S5 configuration fault: swap replica A's three run-time dispatch pointers between the two routine families at seeded yield points
        RunResult a = execute_plan(plan, reps, p.reps[0], p.views[0], verbose, focus, false);
        if (a.violated) return a;
        Rep* R = reps.by_label(p.reps[0]);
        struct Flip { Rep* R; Rng rng; uint64_t flips; int cur; } fl{R, Rng(hash64(a.fingerprint)), 0, 1};
        static thread_local Flip* tl_flip; tl_flip = &fl;
        g_yield_extra = [] { Flip* f = tl_flip; if (f && (f->rng.next() & 0x3FF) == 0) { f->cur ^= 1; f->R->jv_set_dispatch(f->cur); f->flips++; } };
        RunResult b = execute_plan(plan, reps, p.reps[0], p.views[0], verbose, focus, false);
        g_yield_extra = nullptr; tl_flip = nullptr; R->apply_dispatch();
        a.counters["fault:dispatch_pointer_flips_inside_operations"] += fl.flips;
        if (b.violated) { b.v.detail += " [while flipping dispatch pointers]"; b.counters = a.counters; return b; }
        if (a.fingerprint != b.fingerprint) {
            a.violated = true; a.v = {"C03", "dispatch-flip-divergence", strf("run with %llu dispatch-pointer flips at yield points diverges from the undisturbed run on %s", (unsigned long long) fl.flips, p.reps[0].c_str()), 0};
        }
        return a;
    }
    std::vector<RunResult> rs; std::vector<std::string> tags;
    UnitPick pe = p; pe.reps.clear(); uint64_t arm_skipped = 0;
    for (auto& r : p.reps) { if (!reps.by_label(r) && r.compare(0, 3, "ARM") == 0) { arm_skipped++; continue; } pe.reps.push_back(r); }   // an ARM source the interpreter cannot read is a limit of the harness, not a divergence
    for (auto& r : pe.reps) for (int v : p.views) { rs.push_back(execute_plan(plan, reps, r, v, verbose, focus, false)); tags.push_back(r + (v ? "/C++" : "/C")); }
    RunResult out = rs[0]; out.counters["arm_interpreter_unavailable_executions_skipped"] += arm_skipped;
    {
        // a violation that shows on every execution alike belongs to its own property; one that shows on some executions
        // only (or differently) is a divergence between replicas / views
        size_t nviol = 0, first = 0; bool alike = true;
        for (size_t i = 0; i < rs.size(); i++) if (rs[i].violated) { if (!nviol) first = i; nviol++; }
        for (size_t i = 0; i < rs.size(); i++) if (rs[i].violated != rs[first].violated || (rs[i].violated && (rs[i].v.prop != rs[first].v.prop || rs[i].v.oracle != rs[first].v.oracle || rs[i].v.step != rs[first].v.step))) alike = false;
        if (nviol && alike) { out.violated = true; out.v = rs[first].v; out.v.detail += " [on every one of " + std::to_string(rs.size()) + " executions]"; return out; }
        if (nviol) {
            size_t other = 0; for (size_t i = 0; i < rs.size(); i++) if (!rs[i].violated || rs[i].v.oracle != rs[first].v.oracle || rs[i].v.step != rs[first].v.step) { other = i; break; }
            out.violated = true; out.v.prop = mode == "crossrep" ? "C03" : "C19"; out.v.oracle = mode == "crossrep" ? "replica-divergence" : "view-divergence"; out.v.step = rs[first].v.step;
            out.v.detail = tags[first] + " fails " + rs[first].v.prop + "/" + rs[first].v.oracle + " (" + rs[first].v.detail.substr(0, 300) + ") at step " + std::to_string(rs[first].v.step) + " while " + tags[other] + (rs[other].violated ? " fails " + rs[other].v.oracle + " at step " + std::to_string(rs[other].v.step) : " does not");
            return out;
        }
    }
    for (size_t i = 1; i < rs.size(); i++) {
        if (rs[i].fingerprint != rs[0].fingerprint) {
            RunResult a = execute_plan(plan, reps, pe.reps[0], p.views[0], true, focus, false);
            size_t ri = mode == "crossrep" ? i : 0, vi = mode == "crossrep" ? 0 : i;
            RunResult b = execute_plan(plan, reps, pe.reps[ri], p.views[vi], true, focus, false);
            out.violated = true;
            out.v.prop = mode == "crossrep" ? "C03" : "C19";
            out.v.oracle = mode == "crossrep" ? "replica-divergence" : "view-divergence";
            out.v.detail = tags[0] + " vs " + tags[i] + ": " + first_log_difference(a, b);
            out.v.step = 0;
            return out;
        }
    }
    out.counters["cross_executions"] += rs.size();
    return out;
}

static Plan plan_for(const Batch& b, size_t bidx, uint64_t seed, uint64_t idx) {
    Scenario* sc = find_scenario(b.scenario);
    uint64_t rs = mix3(seed, strhash(b.scenario.c_str()) + bidx * 1000003ULL, idx);
    std::map<std::string, int64_t> knobs = b.knobs; knobs["__idx"] = (int64_t) idx;
    Plan p = sc->generate(rs, knobs);
    p.scenario = b.scenario;
    if (b.mode == "duo") { knobs["__idx"] = (int64_t) idx + 1000003; Plan q = sc->generate(mix3(rs, 0xD00, idx), knobs); q.scenario = b.scenario; p = join_duo(p, q); }
    // guard knob of the batch: 1 / 2 = every run, 3 = alternate, 4 = one run in four (alternating)
    { auto it = b.knobs.find("guard"); if (it != b.knobs.end()) { int64_t g = it->second; if (g == 3) g = 1 + (int64_t) (idx & 1); else if (g == 4) g = (idx % 4 == 1) ? 1 : (idx % 4 == 3) ? 2 : 0; if (g) p.cfg["guard"] = g; } }
    return p;
}

// ---------------------------------------------------------------- isolated execution (fresh fork)
struct IsoResult { RunResult r; bool hang = false; };

static std::string errfile_for(pid_t pid) { return verif_root() + "/build/tmp/worker-" + std::to_string((long) pid) + ".err"; }

static std::string classify_exit(int status, pid_t pid, std::string& prop, std::string& oracle) {
    std::string info, err; read_file(errfile_for(pid), err);
    auto grab = [&](const char* key) { size_t p = err.find(key); if (p == std::string::npos) return std::string(); size_t ls = err.rfind('\n', p); p = ls == std::string::npos ? 0 : ls + 1; size_t e = err.find('\n', p); return err.substr(p, (e == std::string::npos ? err.size() : e) - p); };
    if (WIFEXITED(status)) {
        int ec = WEXITSTATUS(status);
        if (ec == 77) { prop = "C17"; std::string s = grab("ERROR: AddressSanitizer"); if (s.empty()) s = grab("runtime error:"); oracle = "sanitizer-report"; info = s.empty() ? "sanitizer exit 77" : s; }
        else if (ec == 78) { prop = "C20"; oracle = "write-trap"; info = grab("TRAP"); }
        else if (ec == 79) { prop = "C20"; oracle = "environment-trap"; info = grab("ENVTRAP"); }
        else { prop = "C17"; oracle = strf("worker-exit-%d", ec); info = err.substr(0, 400); }
    } else if (WIFSIGNALED(status)) {
        std::string s = grab("runtime error:");
        prop = "C17"; oracle = s.empty() ? strf("signal-%d", WTERMSIG(status)) : "sanitizer-report"; info = s.empty() ? strf("worker killed by signal %d", WTERMSIG(status)) : s;
    }
    if (info.size() > 600) info.resize(600);
    return info;
}

// A prelude is a list of earlier units executed (results ignored) in the same fresh process before the plan under judgement:
// it reproduces violations that only show after other calls, i.e. when the library carries hidden state between calls.
struct PreUnit { Plan plan; std::string mode; UnitPick pick; };
static thread_local const std::vector<PreUnit>* tl_prelude = nullptr;

static IsoResult exec_isolated(const Plan& plan, Replicas& reps, const std::string& mode, const UnitPick& p, const std::string& focus, bool verbose, int timeout_s = 300) {
    IsoResult out; int fd[2]; if (pipe(fd) != 0) abort();
    fflush(stdout); fflush(stderr);
    pid_t pid = fork();
    if (pid == 0) {
        close(fd[0]);
        mkdir((verif_root() + "/build/tmp").c_str(), 0755);
        int efd = open(errfile_for(getpid()).c_str(), O_WRONLY | O_CREAT | O_TRUNC, 0644); if (efd >= 0) { dup2(efd, 2); close(efd); }
        if (tl_prelude) for (auto& pu : *tl_prelude) run_fixed(pu.plan, reps, pu.mode, pu.pick, focus, false);
        RunResult r = run_fixed(plan, reps, mode, p, focus, verbose);
        std::string s = result_to_json(r)->dump(false);
        size_t off = 0; while (off < s.size()) { ssize_t w = write(fd[1], s.data() + off, s.size() - off); if (w <= 0) break; off += (size_t) w; }
        close(fd[1]); cov_flush(reps); _exit(0);
    }
    close(fd[1]);
    std::string data; char buf[65536]; double t0 = now_s();
    for (;;) {
        struct pollfd pf = {fd[0], POLLIN, 0}; int pr = poll(&pf, 1, 1000);
        if (pr > 0) { ssize_t n = read(fd[0], buf, sizeof(buf)); if (n <= 0) break; data.append(buf, (size_t) n); }
        else if (now_s() - t0 > timeout_s) { kill(pid, SIGKILL); out.hang = true; break; }
    }
    close(fd[0]);
    int status = 0; waitpid(pid, &status, 0);
    if (out.hang) { out.r.violated = true; out.r.crashed = true; out.r.v = {focus.empty() ? "C10" : focus, "liveness:run-does-not-terminate", strf("run killed after %d s", timeout_s), 0}; }
    else if (WIFEXITED(status) && WEXITSTATUS(status) == 0 && !data.empty()) {
        JsonParser jp(data); JsonP j = jp.parse(); if (j) out.r = result_from_json(*j);
    } else {
        out.r.violated = true; out.r.crashed = true;
        out.r.crash_info = classify_exit(status, pid, out.r.v.prop, out.r.v.oracle); out.r.v.detail = out.r.crash_info; out.r.v.step = -1;
        // a call sequence of the property's own scenario that ends in a crash / sanitizer report did not deliver what the property promises:
        // it is a violation of the property being checked as well as of C17 (on the unchanged tree nothing crashes)
        if (!focus.empty() && out.r.v.prop != focus) { out.r.v.oracle = "crash:" + out.r.v.prop + ":" + out.r.v.oracle; out.r.v.prop = focus; }
    }
    unlink(errfile_for(pid).c_str());
    return out;
}

// ---------------------------------------------------------------- shrinking (one violation class per shrink)
static bool same_class(const RunResult& r, const Violation& v) { return r.violated && r.v.prop == v.prop && r.v.oracle == v.oracle; }
// (debug aid) JV_REPORT_ALL=1 makes a check report violations of every property its batches come across

// Removing plan ops [from,to) under an explicit schedule: decisions that sit inside a removed op go, decisions inside later ops
// of the same task are renumbered. step_offset: env.step of the first op of a (sub-)plan (0 or 1, per scenario).
static Plan erase_ops_renumbering(const Plan& before, size_t from, size_t to, int step_offset) {
    bool conc = before.scenario == "conc"; size_t ntasks = (size_t) std::max<int64_t>(before.c("tasks", 3), 1);
    std::map<int, std::vector<int>> removed;   // task -> removed step numbers
    { int task = 0; std::map<int, int> idx;
      for (size_t i = 0; i < before.ops.size(); i++) {
          const Op& op = before.ops[i];
          if (op.kind == "||") { task = 1; continue; }
          if (op.kind == "SCHED") continue;
          int t = conc ? (int) ((size_t) op.arg(3) % ntasks) : task;
          if (conc && op.kind != "T") continue;
          int stp = idx[t]++ + (conc ? 0 : step_offset);
          if (i >= from && i < to) removed[t].push_back(stp);
      } }
    Plan out = before; out.ops.erase(out.ops.begin() + (long) from, out.ops.begin() + (long) to);
    for (auto& op : out.ops) if (op.kind == "SCHED") {
        std::vector<std::string> nt;
        for (auto& tk : op.s) {
            int a = 0, st = 0, b = 0; unsigned long long k = 0;
            if (sscanf(tk.c_str(), "%d@%d.%llu:%d", &a, &st, &k, &b) != 4) { nt.push_back(tk); continue; }
            auto& rm = removed[a]; int shift = 0; bool gone = false;
            for (int r : rm) { if (r == st) gone = true; else if (r < st) shift++; }
            if (!gone) nt.push_back(strf("%d@%d.%llu:%d", a, st - shift, k, b));
        }
        op.s = nt;
    }
    return out;
}

static Plan shrink(const Plan& start, Replicas& reps, const std::string& mode, const UnitPick& p, const std::string& focus, const Violation& v, int budget, int& used) {
    Plan best = start; used = 0;
    auto test = [&](const Plan& cand) -> bool {
        if (used >= budget) return false; used++;
        IsoResult r = exec_isolated(cand, reps, mode, p, focus, false, 300);
        return same_class(r.r, v);
    };
    // ddmin over ops
    size_t chunk = best.ops.size() / 2;
    while (chunk >= 1 && used < budget) {
        bool any = false;
        for (size_t start_i = 0; start_i < best.ops.size() && used < budget;) {
            Plan cand = best; size_t e = std::min(best.ops.size(), start_i + chunk);
            cand.ops.erase(cand.ops.begin() + (long) start_i, cand.ops.begin() + (long) e);
            if (!cand.ops.empty() && test(cand)) { best = cand; any = true; } else start_i += chunk;
        }
        if (!any) chunk /= 2; else chunk = std::min(chunk, best.ops.size() / 2 ? best.ops.size() / 2 : (size_t) 1);
        if (best.ops.size() <= 1) break;
    }
    // per-op and per-config simplification to a fixpoint (bounded by the budget)
    Scenario* sc = find_scenario(best.scenario);
    bool progress = true;
    while (progress && used < budget) {
        progress = false;
        for (size_t i = 0; i < best.ops.size() && used < budget; i++) {
            for (auto& alt : sc->simplify_op(best, i)) {
                if (alt.str() == best.ops[i].str()) continue;
                Plan cand = best; cand.ops[i] = alt;
                if (test(cand)) { best = cand; progress = true; break; }
            }
        }
        for (auto& cfg : sc->simplify_cfg(best)) {
            if (used >= budget) break;
            if (cfg == best.cfg) continue;
            Plan cand = best; cand.cfg = cfg;
            if (test(cand)) { best = cand; progress = true; break; }
        }
    }
    // Schedule phase: replace the PRNG-driven schedule by the explicit list of decisions it took, then ddmin that list.
    if (mode == "duo" || best.scenario == "conc") {
        bool has = false; for (auto& op : best.ops) if (op.kind == "SCHED") has = true;
        IsoResult r0 = exec_isolated(best, reps, mode, p, focus, false, 300);
        if (!has && same_class(r0.r, v) && !r0.r.sched.empty()) {
            Plan withs = best; withs.ops.push_back({"SCHED", {}, r0.r.sched});
            int budget2 = budget + 120;   // the schedule gets its own allowance
            auto test2 = [&](const Plan& cand) -> bool { if (used >= budget2) return false; used++; IsoResult r = exec_isolated(cand, reps, mode, p, focus, false, 300); return same_class(r.r, v); };
            if (test2(withs)) {
                best = withs; size_t si = best.ops.size() - 1;
                size_t chunk2 = best.ops[si].s.size() / 2;
                while (chunk2 >= 1 && used < budget2) {
                    bool any = false;
                    for (size_t st = 0; st < best.ops[si].s.size() && used < budget2;) {
                        Plan cand = best; auto& tk = cand.ops[si].s; size_t e = std::min(tk.size(), st + chunk2);
                        tk.erase(tk.begin() + (long) st, tk.begin() + (long) e);
                        if (test2(cand)) { best = cand; any = true; } else st += chunk2;
                    }
                    if (!any) chunk2 /= 2; else chunk2 = std::min(chunk2, std::max<size_t>(best.ops[si].s.size() / 2, 1));
                    if (best.ops[si].s.empty()) break;
                }
                // Second pass over the plan ops, now that the schedule no longer changes when ops go (PRNG-driven schedules made
                // most removals "happen not to fail").
                int budget3 = budget2 + 150; int off = sc->step_offset();
                auto test3 = [&](const Plan& cand) -> bool { if (used >= budget3) return false; used++; IsoResult r = exec_isolated(cand, reps, mode, p, focus, false, 300); return same_class(r.r, v); };
                size_t chunk3 = best.ops.size() / 2;
                while (chunk3 >= 1 && used < budget3) {
                    bool any = false;
                    for (size_t st = 0; st < best.ops.size() && used < budget3;) {
                        size_t e = std::min(best.ops.size(), st + chunk3); bool structural = false;
                        for (size_t q = st; q < e; q++) if (best.ops[q].kind == "SCHED" || best.ops[q].kind == "||") structural = true;
                        if (structural) { st += chunk3 > 1 ? 1 : chunk3; if (chunk3 > 1) continue; else continue; }
                        Plan cand = erase_ops_renumbering(best, st, e, off);
                        if (test3(cand)) { best = cand; any = true; } else st += chunk3;
                    }
                    if (!any) chunk3 /= 2; else chunk3 = std::min(chunk3, std::max<size_t>(best.ops.size() / 2, 1));
                }
            }
        }
    }
    return best;
}

// ---------------------------------------------------------------- replay files
static JsonP replay_json(const std::string& prop, const Violation& v, const Plan& plan, const std::string& mode, const UnitPick& p, const std::string& fp, uint64_t seed, uint64_t idx, const std::string& tier) {
    auto j = Json::obj();
    j->set("property", prop); j->set("oracle", v.oracle); j->set("violated_property", v.prop); j->set("detail", v.detail); j->seti("step", v.step);
    j->set("flavour", flavour()); j->set("mode", mode);
    auto ra = Json::arr(); for (auto& r : p.reps) ra->push(Json::str(r)); j->set("replicas", ra);
    auto va = Json::arr(); for (int x : p.views) va->push(Json::integer(x)); j->set("views", va);
    j->set("expected_fingerprint", fp); j->seti("seed", (int64_t) seed); j->seti("run_index", (int64_t) idx); j->set("tier", tier);
    j->set("plan", plan.to_json());
    if (tl_prelude && !tl_prelude->empty()) {
        auto pa = Json::arr();
        for (auto& pu : *tl_prelude) { auto o = Json::obj(); o->set("mode", pu.mode); auto r2 = Json::arr(); for (auto& r : pu.pick.reps) r2->push(Json::str(r)); o->set("replicas", r2); auto v2 = Json::arr(); for (int x : pu.pick.views) v2->push(Json::integer(x)); o->set("views", v2); o->set("plan", pu.plan.to_json()); pa->push(o); }
        j->set("prelude", pa);
        j->set("prelude_note", "these units are executed first, in the same process, results ignored: the violation only shows after them, i.e. the library carries state between calls");
    }
    return j;
}

int run_replay(const std::string& path, bool verbose) {
    std::string txt; if (!read_file(path, txt)) { fprintf(stderr, "cannot read %s\n", path.c_str()); return 2; }
    JsonParser jp(txt); JsonP j = jp.parse(); if (!j) { fprintf(stderr, "bad replay file\n"); return 2; }
    if (j->gets("flavour") != flavour()) { fprintf(stderr, "replay file is for flavour %s, this binary is %s\n", j->gets("flavour").c_str(), flavour().c_str()); return 3; }
    Plan plan; if (!Plan::from_json(*j->get("plan"), plan)) { fprintf(stderr, "bad plan\n"); return 2; }
    UnitPick p; for (auto& r : j->get("replicas")->a) p.reps.push_back(r->s); for (auto& v : j->get("views")->a) p.views.push_back((int) v->inum);
    Replicas reps; std::string err; if (!load_all(reps, err)) { fprintf(stderr, "replica load failed: %s\n", err.c_str()); return 2; }
    std::string focus = j->gets("property");
    std::vector<PreUnit> prelude;
    if (auto pj = j->get("prelude")) for (auto& e : pj->a) { PreUnit pu; Plan::from_json(*e->get("plan"), pu.plan); pu.mode = e->gets("mode"); for (auto& r : e->get("replicas")->a) pu.pick.reps.push_back(r->s); for (auto& v : e->get("views")->a) pu.pick.views.push_back((int) v->inum); prelude.push_back(pu); }
    if (!prelude.empty()) tl_prelude = &prelude;
    IsoResult r = exec_isolated(plan, reps, j->gets("mode"), p, focus, verbose);
    if (verbose) for (auto& l : r.r.log_lines) printf("  %s\n", l.c_str());
    bool same = r.r.violated && r.r.v.prop == j->gets("violated_property") && r.r.v.oracle == j->gets("oracle");
    if (same) {
        printf("REPRODUCED property=%s oracle=%s step=%d fingerprint=%s (expected %s)\n  %s\n", r.r.v.prop.c_str(), r.r.v.oracle.c_str(), r.r.v.step, r.r.fingerprint.c_str(), j->gets("expected_fingerprint").c_str(), r.r.v.detail.c_str());
        return 1;
    }
    if (r.r.violated) printf("DIFFERENT violation: %s %s: %s\n", r.r.v.prop.c_str(), r.r.v.oracle.c_str(), r.r.v.detail.c_str());
    else printf("NOT REPRODUCED (run is clean, fingerprint %s)\n", r.r.fingerprint.c_str());
    return 0;
}

// ---------------------------------------------------------------- worker pool
struct Unit { size_t b; uint64_t idx; };

struct Worker {
    pid_t pid = -1; int fd = -1; std::string buf; std::vector<Unit> todo; size_t next = 0;   // next: first unit not yet confirmed done
    bool inflight = false; Unit cur{0, 0}; double started = 0; bool done = false; size_t start = 0;
};

static void worker_main(int wfd, const std::vector<Unit>& units, size_t from, CheckSpec& spec, Replicas& reps, uint64_t seed) {
    mkdir((verif_root() + "/build/tmp").c_str(), 0755);
    int efd = open(errfile_for(getpid()).c_str(), O_WRONLY | O_CREAT | O_TRUNC, 0644); if (efd >= 0) { dup2(efd, 2); close(efd); }
    FILE* out = fdopen(wfd, "w");
    for (size_t i = from; i < units.size(); i++) {
        const Unit& u = units[i]; const Batch& b = spec.batches[u.b];
        fprintf(out, "S %zu %llu\n", u.b, (unsigned long long) u.idx); fflush(out);
        Plan plan = plan_for(b, u.b, seed, u.idx);
        RunResult r = run_fixed(plan, reps, b.mode, pick(b, u.idx), spec.prop, false);
        std::string s = result_to_json(r)->dump(false);
        fprintf(out, "R %zu %llu %s\n", u.b, (unsigned long long) u.idx, s.c_str()); fflush(out);
    }
    fprintf(out, "E\n"); fflush(out);
    cov_flush(reps);
    _exit(0);
}

static void spawn(Worker& w, CheckSpec& spec, Replicas& reps, uint64_t seed) {
    int fd[2]; if (pipe(fd) != 0) abort();
    fflush(stdout); fflush(stderr);
    pid_t pid = fork();
    if (pid == 0) { close(fd[0]); worker_main(fd[1], w.todo, w.next, spec, reps, seed); }
    close(fd[1]); w.pid = pid; w.fd = fd[0]; w.buf.clear(); w.inflight = false; w.done = false; w.start = w.next;
}

static void merge(CheckState& st, const RunResult& r) {
    st.evaluations++;
    for (auto& kv : r.counters) st.counters[kv.first] += kv.second;
    for (auto& c : r.cases) { st.cases_all.insert(c.first); if (c.second) st.cases_nontrivial.insert(c.first); }
}

static void write_evidence(CheckState& st, double wall, int nviol, const std::vector<std::string>& known_lines) {
    CheckSpec& sp = *st.spec;
    auto j = Json::obj();
    j->set("property_id", sp.prop); j->set("tier", sp.tier); j->seti("seed", (int64_t) st.seed); j->set("level", sp.level);
    auto cov = Json::obj();
    cov->seti("evaluations", (int64_t) st.evaluations);
    cov->seti("distinct_nontrivial", (int64_t) st.cases_nontrivial.size());
    cov->seti("distinct_cases_total", (int64_t) st.cases_all.size());
    cov->set("rule", sp.rule);
    if (st.samples.empty() && !sp.batches.empty() && find_scenario(sp.batches[0].scenario)) {   // a run that stopped at its first violation still shows what a plan looks like
        Plan pl = plan_for(sp.batches[0], 0, st.seed, 0); auto sj = Json::obj(); sj->set("scenario", pl.scenario); sj->seti("run_index", 0); auto oa = Json::arr(); for (size_t q = 0; q < pl.ops.size() && q < 14; q++) oa->push(Json::str(pl.ops[q].str().substr(0, 300))); sj->set("ops", oa); sj->seti("ops_total", (int64_t) pl.ops.size()); st.samples.push_back(sj);
    }
    auto sm = Json::arr(); for (auto& s : st.samples) sm->push(s); cov->set("samples", sm);
    if (sp.level == "other") cov->set("explanation", sp.rule);
    cov->setd("runs_per_hour", wall > 0 ? st.evaluations / wall * 3600.0 : 0);
    cov->set("simulated_time", strf("none - the system has no clock; %llu logical steps, %llu library calls", (unsigned long long) st.counters["steps"], (unsigned long long) st.counters["library_calls"]));
    auto faults = Json::obj(), probes = Json::obj(), other = Json::obj();
    for (auto& kv : st.counters) {
        if (kv.first.compare(0, 6, "fault:") == 0) faults->seti(kv.first.substr(6), (int64_t) kv.second);
        else if (kv.first.compare(0, 6, "probe:") == 0) probes->seti(kv.first.substr(6), (int64_t) kv.second);
        else other->seti(kv.first, (int64_t) kv.second);
    }
    cov->set("faults_fired", faults); cov->set("reach_probes", probes); cov->set("counters", other);
    auto bt = Json::arr();
    for (auto& b : sp.batches) {
        auto bj = Json::obj(); bj->set("scenario", b.scenario); bj->set("mode", b.mode); bj->seti("runs", (int64_t) b.runs);
        std::string rs; for (auto& r : b.replicas) rs += r + " "; bj->set("replicas", rs); if (!b.note.empty()) bj->set("note", b.note);
        bt->push(bj);
    }
    cov->set("batches", bt);
    cov->set("flavour", flavour() == "san" ? "replicas and simulator built with AddressSanitizer+UndefinedBehaviorSanitizer (no recover)" : "plain -Ofast replicas");
    cov->set("real_code", "every line of /repo/include and /repo/src, rebuilt from the working tree into replicas A (x86-64 asm, run-time dispatch; loaded twice: BMI2/ADX and baseline), As (-mbmi2 -madx static dispatch, -DNDEBUG: the release build), B (-DDISABLE_ASM, 64-bit words), C (-DDISABLE_ASM, 32-bit words, -funsigned-char as in the ARM ABIs), G (the asm configuration built with g++; plain flavour only), each together with the verification adapter");
    cov->set("stubs", "caller's random source (seeded stream with scripted faults), caller's hash function, store/transport of marshalled bytes, the Go wrapper's allocate-then-unmarshal protocol (re-implemented from lang/go), OS scheduler (serialising seeded scheduler), libc entry points (trapped)");
    cov->set("not_covered", "no AArch64 or ARMv6-M CPU or emulator exists in this sandbox: 4 of the 6 configurations run natively; the hand-written AArch64 and ARMv6-M assembly routines run under the simulator's own interpreter of their source text in the register-machine layer of C03 only (their C++ glue headers include/core/arch/{aarch64,armv6_m}/*.hpp are represented by the interpreter's call sequence, and everything above the eight routines is the portable code of the same word size); no Go toolchain");
    if (!g_arm_note.empty()) cov->set("interpreted_arm_back_ends", g_arm_note + "the assembly source text of /repo/src/core/arch/{aarch64,armv6_m} runs under the simulator's own interpreter (macro expansion, instruction semantics, flags, bounds-checked guest memory, calling-convention checks); they take part in the cross-replica batches of scenario prim only");
    for (auto& kv : st.extra->o) cov->set(kv.first, kv.second);
    if (!known_lines.empty()) { auto ka = Json::arr(); for (auto& k : known_lines) ka->push(Json::str(k)); cov->set("known_findings_reported", ka); }
    j->set("coverage", cov);
    auto as = Json::arr(); for (auto& a : sp.assumptions) as->push(Json::str(a)); j->set("assumptions", as);
    j->setd("wall_s", wall); j->seti("violations", nviol);
    // JV_EVIDENCE_DIR: runs against seeded changes (bin/mutcheck) must not overwrite the evidence of the real tree
    std::string edir = getenv("JV_EVIDENCE_DIR") ? getenv("JV_EVIDENCE_DIR") : verif_root() + "/evidence";
    mkdir(edir.c_str(), 0755);
    write_file(edir + "/" + sp.prop + ".json", j->dump() + "\n");
}

int run_check(const std::string& prop, const std::string& tier, uint64_t seed, int workers) {
    double t0 = now_s();
    CheckSpec spec; std::string err;
    if (!build_check(prop, tier, spec, err)) { fprintf(stderr, "jsim: %s\n", err.c_str()); return 2; }
    Replicas reps; if (!load_all(reps, err)) { fprintf(stderr, "jsim: replica load failed: %s\n", err.c_str()); return 2; }
    CheckState st; st.spec = &spec; st.reps = &reps; st.seed = seed;
    // Configurations that no longer build from this tree. The adapter's fault: harness problem. A library source's fault: the
    // configuration is broken - a violation for the properties that quantify over configurations, a dropped replica for the others.
    for (auto& nb : reps.not_built) {
        if (getenv("JV_REPLICA_FLAVOUR")) continue;   // coverage builds have A, B and C only
        std::string txt; read_file(replica_dir() + "/failed_" + nb + ".txt", txt); std::string src = txt.substr(0, txt.find('\n')), first;
        { size_t e = txt.find("error"); if (e != std::string::npos) { size_t ls = txt.rfind('\n', e); ls = ls == std::string::npos ? 0 : ls + 1; size_t le = txt.find('\n', e); first = txt.substr(ls, (le == std::string::npos ? txt.size() : le) - ls); } }
        const char* what = nb == "As" ? "x86-64 asm with -mbmi2 -madx" : nb == "B" ? "portable C++ (-DDISABLE_ASM), 64-bit words" : nb == "C" ? "portable C++ (-DDISABLE_ASM), 32-bit words (-U__SIZEOF_INT128__)" : nb == "G" ? "x86-64 asm built with g++" : nb.c_str();
        if (src.find("/adapter/") != std::string::npos || txt.empty()) { fprintf(stderr, "jsim: the verification adapter does not build against this tree in configuration %s:\n%s\n", what, txt.c_str()); return 2; }
        printf("note: the library does not build in configuration [%s]: %s: %s\n", what, src.c_str(), first.c_str());
        st.extra->set("configuration_not_built:" + nb, src + ": " + first);
        if (prop == "C03" || prop == "C19" || prop == "C20") { st.violated = true; st.v = {prop, "configuration-builds", std::string("the library no longer builds in a configuration the property quantifies over [") + what + "]: " + src + ": " + first, 0}; }
    }
    // batches keep only replicas that exist; a batch left without any is skipped
    for (auto& b : spec.batches) { std::vector<std::string> keep; for (auto& l : b.replicas) if (reps.by_label(l) || l.compare(0, 3, "ARM") == 0) keep.push_back(l); if (keep.size() != b.replicas.size()) { b.note += " [replicas that do not build from this tree left out]"; b.replicas = keep; } bool real = false; for (auto& l : b.replicas) if (reps.by_label(l)) real = true; if (!real) b.runs = 0; }
    printf("jsim check %s tier=%s seed=%llu flavour=%s workers=%d replicas=%s\n", prop.c_str(), tier.c_str(), (unsigned long long) seed, flavour().c_str(), workers, replica_dir().c_str());
    fflush(stdout);

    if (prop == "C20" && flavour() == "plain") conc_protect_modules(reps);
    // static phases (run in the parent; deterministic facts such as the ABI table)
    if (!st.violated) for (auto& ph : spec.static_phases) {
        if (!ph(st)) break;
    }

    // unit list, interleaved over workers
    std::vector<Unit> units;
    // (debug aids, not used by any registered command: JV_SCALE=<percent> shrinks every batch to that share of its runs - a smoke test of a thorough tier)
    if (const char* sc = getenv("JV_SCALE")) { double f = atof(sc) / 100.0; if (f > 0 && f < 1) for (auto& b : spec.batches) b.runs = std::max<uint64_t>(1, (uint64_t) (b.runs * f)); }
    if (!getenv("JV_ONLY_STATIC")) for (size_t b = 0; b < spec.batches.size(); b++) for (uint64_t i = 0; i < spec.batches[b].runs; i++) units.push_back({b, i});   // (debug aid: JV_ONLY_STATIC=1 runs the static phases alone)
    std::vector<Worker> ws((size_t) workers);
    for (size_t i = 0; i < units.size(); i++) ws[i % ws.size()].todo.push_back(units[i]);
    std::vector<std::pair<Unit, RunResult>> viols; std::vector<std::string> unit_fps;
    if (!st.violated) {
        for (auto& w : ws) if (!w.todo.empty()) spawn(w, spec, reps, seed); else w.done = true;
        size_t sample_budget = 6;
        for (;;) {
            std::vector<struct pollfd> pfs; std::vector<size_t> map;
            for (size_t i = 0; i < ws.size(); i++) if (!ws[i].done) { pfs.push_back({ws[i].fd, POLLIN, 0}); map.push_back(i); }
            if (pfs.empty()) break;
            int pr = poll(pfs.data(), pfs.size(), 1000);
            double tn = now_s();
            for (size_t k = 0; k < pfs.size(); k++) {
                Worker& w = ws[map[k]];
                bool dead = false;
                if (pr > 0 && (pfs[k].revents & (POLLIN | POLLHUP))) {
                    char buf[65536]; ssize_t n = read(w.fd, buf, sizeof(buf));
                    if (n > 0) w.buf.append(buf, (size_t) n); else dead = true;
                    size_t nl;
                    while ((nl = w.buf.find('\n')) != std::string::npos) {
                        std::string line = w.buf.substr(0, nl); w.buf.erase(0, nl + 1);
                        if (line[0] == 'S') { w.inflight = true; w.cur = w.todo[w.next]; w.started = tn; }
                        else if (line[0] == 'R') {
                            size_t p1 = line.find(' ', 2), p2 = line.find(' ', p1 + 1);
                            JsonParser jp(line.substr(p2 + 1)); JsonP j = jp.parse();
                            RunResult r; if (j) r = result_from_json(*j);
                            Unit u = w.todo[w.next]; w.next++; w.inflight = false;
                            merge(st, r);
                            unit_fps.push_back(strf("%zu/%llu/%s", u.b, (unsigned long long) u.idx, r.fingerprint.c_str()));
                            if (r.violated) {
                                if (r.v.prop == prop || r.v.prop == "HARNESS" || getenv("JV_REPORT_ALL")) viols.push_back({u, r});
                                else st.counters["other_property_violation:" + r.v.prop + ":" + r.v.oracle]++;
                            }
                            if (sample_budget && u.idx < 2) { sample_budget--; Plan pl = plan_for(spec.batches[u.b], u.b, seed, u.idx); auto sj = Json::obj(); sj->set("scenario", pl.scenario); sj->seti("run_index", (int64_t) u.idx); sj->set("fingerprint", r.fingerprint); auto oa = Json::arr(); for (size_t q = 0; q < pl.ops.size() && q < 14; q++) oa->push(Json::str(pl.ops[q].str().substr(0, 300))); sj->set("ops", oa); sj->seti("ops_total", (int64_t) pl.ops.size()); st.samples.push_back(sj); }
                        }
                        else if (line[0] == 'E') { w.done = true; }
                    }
                }
                if (!w.done && !dead && w.inflight && tn - w.started > 300) { kill(w.pid, SIGKILL); dead = true; st.counters["watchdog_kills"]++; }
                if (dead || w.done) {
                    int status = 0; waitpid(w.pid, &status, 0); close(w.fd);
                    if (!w.done) {
                        // the worker died: attribute to the unit in flight, restart after it
                        RunResult r; r.violated = true; r.crashed = true;
                        r.crash_info = classify_exit(status, w.pid, r.v.prop, r.v.oracle); r.v.detail = r.crash_info; r.v.step = -1;
                        if (WIFSIGNALED(status) && WTERMSIG(status) == SIGKILL) { r.v.prop = prop; r.v.oracle = "liveness:run-does-not-terminate"; r.v.detail = "watchdog: one run did not finish within 300 s (runs take milliseconds to a few seconds)"; }
                        Unit u = w.next < w.todo.size() ? w.todo[w.next] : Unit{0, 0};
                        st.evaluations++;
                        if (r.v.prop != prop) { r.v.oracle = "crash:" + r.v.prop + ":" + r.v.oracle; r.v.prop = prop; }
                        if (r.v.prop == prop || prop == "C17") viols.push_back({u, r}); else { st.counters["other_property_violation:" + r.v.prop + ":" + r.v.oracle]++; if (getenv("JV_DEBUG")) printf("  debug: worker died at batch %zu run %llu: %s\n", u.b, (unsigned long long) u.idx, r.v.detail.c_str()); }
                        unlink(errfile_for(w.pid).c_str());
                        w.next++;
                        if (w.next < w.todo.size() && viols.size() < 4) spawn(w, spec, reps, seed); else w.done = true;
                    } else unlink(errfile_for(w.pid).c_str());
                }
            }
            if (!viols.empty()) {
                // stop the batch: one violation is enough; shrink the lowest (batch, index) among those seen
                for (auto& w : ws) if (!w.done) { kill(w.pid, SIGKILL); int s; waitpid(w.pid, &s, 0); close(w.fd); unlink(errfile_for(w.pid).c_str()); w.done = true; }
            }
        }
    }

    int rc = 0; std::vector<std::string> known;
    if (!viols.empty() && !st.violated) {
        std::sort(viols.begin(), viols.end(), [](const std::pair<Unit, RunResult>& a, const std::pair<Unit, RunResult>& b) { return a.first.b != b.first.b ? a.first.b < b.first.b : a.first.idx < b.first.idx; });
        Unit u = viols[0].first; const Batch& b = spec.batches[u.b];
        Plan plan = plan_for(b, u.b, seed, u.idx); UnitPick p = pick(b, u.idx);
        // confirm in a fresh process, then shrink within the same violation class
        IsoResult first = exec_isolated(plan, reps, b.mode, p, prop, false);
        std::vector<PreUnit> prelude;
        if (!first.r.violated) {
            // Not reproducible alone. The harness is deterministic (selftest), so the library itself may carry state between calls:
            // replay the history of the worker that saw it (the units it executed before this one), then minimise that history.
            for (auto& w : ws) for (size_t i = w.start; i < w.todo.size(); i++) if (w.todo[i].b == u.b && w.todo[i].idx == u.idx) {
                for (size_t k = w.start; k < i; k++) { const Batch& pb = spec.batches[w.todo[k].b]; prelude.push_back({plan_for(pb, w.todo[k].b, seed, w.todo[k].idx), pb.mode, pick(pb, w.todo[k].idx)}); }
            }
            tl_prelude = &prelude;
            first = exec_isolated(plan, reps, b.mode, p, prop, false);
            if (!first.r.violated || !same_class(first.r, viols[0].second.v)) { tl_prelude = nullptr; printf("HARNESS-NONDETERMINISM: violation seen in batch did not reproduce, neither alone nor after the same history (%s %s)\n", viols[0].second.v.prop.c_str(), viols[0].second.v.oracle.c_str()); write_evidence(st, now_s() - t0, 0, known); return 2; }
            printf("violation only shows after earlier calls in the same process (%zu units of history): the library carries state between calls; minimising the history...\n", prelude.size()); fflush(stdout);
            Violation hv = first.r.v; int tests = 0;
            size_t chunk = prelude.size() / 2;
            while (chunk >= 1 && tests < 80) {
                bool any = false;
                for (size_t si = 0; si < prelude.size() && tests < 80;) {
                    std::vector<PreUnit> cand = prelude; size_t e = std::min(prelude.size(), si + chunk); cand.erase(cand.begin() + (long) si, cand.begin() + (long) e);
                    tl_prelude = &cand; tests++; IsoResult r = exec_isolated(plan, reps, b.mode, p, prop, false);
                    if (same_class(r.r, hv)) { prelude = cand; any = true; } else si += chunk;
                }
                if (!any) chunk /= 2;
                if (prelude.size() <= 1) break;
            }
            tl_prelude = &prelude;
            printf("  history minimised to %zu unit(s) in %d re-executions\n", prelude.size(), tests);
        }
        Violation v = first.r.v; int used = 0;
        printf("violation %s/%s at %s run %llu; shrinking (%zu ops)...\n", v.prop.c_str(), v.oracle.c_str(), b.scenario.c_str(), (unsigned long long) u.idx, plan.ops.size()); fflush(stdout);
        Plan small = shrink(plan, reps, b.mode, p, prop, v, tier == "quick" ? 150 : 400, used);
        IsoResult r1 = exec_isolated(small, reps, b.mode, p, prop, false), r2 = exec_isolated(small, reps, b.mode, p, prop, false);
        if (!same_class(r1.r, v) || !same_class(r2.r, v) || r1.r.v.step != r2.r.v.step) {
            printf("HARNESS-NONDETERMINISM: minimised plan does not replay identically\n"); write_evidence(st, now_s() - t0, 0, known); return 2;
        }
        if (r1.r.fingerprint != r2.r.fingerprint)
            printf("  note: the same oracle fails at the same step in both fresh processes, but the values the library produced differ between the two executions (it reads uninitialised or out-of-bounds memory); the selftest shows the harness itself is deterministic\n");
        mkdir((verif_root() + "/replays").c_str(), 0755);
        std::string ptxt = small.to_json()->dump(false);
        std::string path = verif_root() + "/replays/" + prop + "-" + (r1.r.fingerprint.empty() ? "crash-" + sha_hex(ptxt.data(), ptxt.size(), 6) : r1.r.fingerprint.substr(0, 12)) + ".json";
        write_file(path, replay_json(prop, r1.r.v, small, b.mode, p, r1.r.fingerprint, seed, u.idx, tier)->dump() + "\n");
        printf("  oracle: %s\n  detail: %s\n  minimised to %zu ops in %d re-executions; replays identically in two fresh processes\n", r1.r.v.oracle.c_str(), r1.r.v.detail.c_str(), small.ops.size(), used);
        for (auto& op : small.ops) printf("    %s\n", op.str().substr(0, 400).c_str());
        printf("VIOLATION property=%s replay=%s\n", prop.c_str(), path.c_str());
        rc = 1;
    } else if (st.violated) {
        mkdir((verif_root() + "/replays").c_str(), 0755);
        std::string path = verif_root() + "/replays/" + prop + "-static-" + sha_hex(st.v.detail.data(), st.v.detail.size(), 6) + ".json";
        auto j = Json::obj(); j->set("property", prop); j->set("oracle", st.v.oracle); j->set("violated_property", st.v.prop); j->set("detail", st.v.detail); j->set("mode", "static"); j->set("flavour", flavour());
        write_file(path, j->dump() + "\n");
        printf("  oracle: %s\n  detail: %s\n", st.v.oracle.c_str(), st.v.detail.c_str());
        printf("VIOLATION property=%s replay=%s\n", prop.c_str(), path.c_str());
        rc = 1;
    }
    double wall = now_s() - t0;
    std::sort(unit_fps.begin(), unit_fps.end()); { Sha256 h; for (auto& f : unit_fps) h.update(f); uint8_t d[32]; h.final(d); st.extra->set("batch_fingerprint", hex(d, 16)); printf("batch fingerprint %s (independent of worker count and scheduling of workers)\n", hex(d, 16).c_str()); }
    write_evidence(st, wall, rc == 1 ? 1 : 0, known);
    printf("jsim check %s: %llu runs, %zu distinct cases (%zu non-trivial), %.1f s, %s\n", prop.c_str(), (unsigned long long) st.evaluations, st.cases_all.size(), st.cases_nontrivial.size(), wall, rc == 0 ? "no violation" : "VIOLATION");
    for (auto& kv : st.counters) if (kv.first.compare(0, 24, "other_property_violation") == 0) printf("  note: %s x%llu (reported by that property's own check)\n", kv.first.c_str(), (unsigned long long) kv.second);
    return rc;
}

// debug aid: execute the same plan twice in this process and show the first differing log line
int run_twice(const std::string& scenario, uint64_t seed, const std::string& rep, int view) {
    Replicas reps; std::string err; if (!load_all(reps, err)) { fprintf(stderr, "replica load failed: %s\n", err.c_str()); return 2; }
    Scenario* sc = find_scenario(scenario); if (!sc) return 2;
    Plan plan = sc->generate(seed, g_cli_knobs); plan.scenario = scenario;
    RunResult a = execute_plan(plan, reps, rep, view, true, "", false), b = execute_plan(plan, reps, rep, view, true, "", false);
    if (a.fingerprint == b.fingerprint) { printf("same fingerprint %s\n", a.fingerprint.c_str()); return 0; }
    printf("%s\n", first_log_difference(a, b).c_str()); return 1;
}

int run_one(const std::string& scenario, uint64_t seed, const std::string& rep, int view, bool verbose) {
    Replicas reps; std::string err; if (!load_all(reps, err)) { fprintf(stderr, "replica load failed: %s\n", err.c_str()); return 2; }
    Scenario* sc = find_scenario(scenario); if (!sc) { fprintf(stderr, "no scenario %s\n", scenario.c_str()); return 2; }
    Plan plan = sc->generate(seed, g_cli_knobs); plan.scenario = scenario;
    for (auto& op : plan.ops) if (verbose) printf("  op: %s\n", op.str().substr(0, 300).c_str());
    RunResult r = execute_plan(plan, reps, rep, view, verbose, "", false);
    for (auto& l : r.log_lines) printf("  %s\n", l.c_str());
    for (auto& kv : r.counters) printf("  %s = %llu\n", kv.first.c_str(), (unsigned long long) kv.second);
    printf("fingerprint %s cases %zu %s\n", r.fingerprint.c_str(), r.cases.size(), r.violated ? ("VIOLATED " + r.v.prop + " " + r.v.oracle + ": " + r.v.detail).c_str() : "clean");
    return r.violated ? 1 : 0;
}

// Determinism gate: every scenario, many seeds, each executed twice in separate
// processes and once in-process after other runs; fingerprints must agree.
int run_selftest(uint64_t seed, int n) {
    Replicas reps; std::string err; if (!load_all(reps, err)) { fprintf(stderr, "replica load failed: %s\n", err.c_str()); return 2; }
    int bad = 0; uint64_t total = 0;
    for (auto sc : registry()) {
        for (int i = 0; i < n; i++) {
            uint64_t s = mix3(seed, strhash(sc->name()), (uint64_t) i);
            Plan plan = sc->generate(s, {}); plan.scenario = sc->name();
            Plan plan2 = sc->generate(s, {}); plan2.scenario = sc->name();
            if (plan.to_json()->dump() != plan2.to_json()->dump()) { printf("selftest: generator of %s is not deterministic (seed %llu)\n", sc->name(), (unsigned long long) s); bad++; continue; }
            UnitPick p; p.reps = {reps.all[(size_t) i % reps.all.size()]->label}; p.views = {i % 2};
            IsoResult a = exec_isolated(plan, reps, "single", p, "", false), b = exec_isolated(plan, reps, "single", p, "", false);
            RunResult c = execute_plan(plan, reps, p.reps[0], p.views[0], false, "", false);
            total++;
            if (a.r.fingerprint != b.r.fingerprint || a.r.fingerprint != c.fingerprint || a.r.violated != b.r.violated) {
                printf("selftest: %s seed %llu fingerprints differ: %s %s %s\n", sc->name(), (unsigned long long) s, a.r.fingerprint.c_str(), b.r.fingerprint.c_str(), c.fingerprint.c_str()); bad++;
            }
            // a JSON round trip of the plan must not change the run either
            Plan rt; JsonParser jp(plan.to_json()->dump()); JsonP pj = jp.parse();
            if (!pj || !Plan::from_json(*pj, rt)) { printf("selftest: plan of %s does not round-trip through JSON\n", sc->name()); bad++; continue; }
            RunResult d = execute_plan(rt, reps, p.reps[0], p.views[0], false, "", false);
            if (d.fingerprint != c.fingerprint) { printf("selftest: %s seed %llu: replay from JSON differs\n", sc->name(), (unsigned long long) s); bad++; }
            // explicit schedules: the decisions a PRNG-driven schedule took, replayed as a list, give the same run
            if (!c.sched.empty()) {
                Plan ex = plan; ex.ops.push_back({"SCHED", {}, c.sched});
                RunResult e2 = execute_plan(ex, reps, p.reps[0], p.views[0], false, "", false);
                if (e2.fingerprint != c.fingerprint || e2.sched != c.sched) { printf("selftest: %s seed %llu: explicit-schedule replay differs from the PRNG-driven run\n", sc->name(), (unsigned long long) s); bad++; }
            }
            if (i < 3 && std::string(sc->name()) != "conc") {
                Plan pb = sc->generate(mix3(s, 0xD00, 7), {}); pb.scenario = sc->name();
                Plan duo = join_duo(plan, pb);
                RunResult d1 = run_fixed(duo, reps, "duo", p, "", false);
                Plan ex = duo; ex.ops.push_back({"SCHED", {}, d1.sched});
                RunResult d2 = run_fixed(ex, reps, "duo", p, "", false);
                if (d1.sched.empty() || d1.fingerprint != d2.fingerprint || d1.sched != d2.sched || d1.violated != d2.violated) { printf("selftest: %s seed %llu: duo explicit-schedule replay differs (%zu vs %zu decisions)\n", sc->name(), (unsigned long long) s, d1.sched.size(), d2.sched.size()); bad++; }
            }
        }
    }
    printf("selftest: %llu (scenario,seed) pairs x 4 executions, %d mismatches\n", (unsigned long long) total, bad);
    return bad ? 2 : 0;
}

} // namespace jv
