// rep.hpp - replica loader: dlopen one build of the library+adapter and bind the jv_* ABI.
#pragma once
#include <dlfcn.h>
#include <unistd.h>
#include <stdlib.h>
#include <string.h>
#include <string>
#include <vector>
#include "../adapter/jv_abi.h"
#include <sys/mman.h>
#include "util.hpp"

namespace jv {

// Guard mode (a per-run fault decision, plan cfg "guard"): every caller object sits flush against an inaccessible page - 1: its last byte is the
// last byte of mapped memory, 2: its first byte is the first. Hand-written assembly is invisible to the sanitizers; a load or store one word
// beyond an operand (even of a value that is never used) faults here, as it would for a caller whose object ends a mapping.
extern int g_buf_guard;
// exactly-sized, 16-aligned heap block (ASan sees one-byte overruns)
struct Buf {
    uint8_t* p = nullptr; size_t n = 0; uint8_t* gbase = nullptr; size_t gtotal = 0;
    Buf() {}
    explicit Buf(size_t n_, int fill = 0) { alloc(n_, fill); }
    Buf(const Buf& o) { if (o.p) { alloc(o.n); memcpy(p, o.p, n); } }
    Buf& operator=(const Buf& o) { if (this != &o) { release(); if (o.p) { alloc(o.n); memcpy(p, o.p, n); } } return *this; }
    Buf(Buf&& o) noexcept : p(o.p), n(o.n), gbase(o.gbase), gtotal(o.gtotal) { o.p = nullptr; o.n = 0; o.gbase = nullptr; o.gtotal = 0; }
    Buf& operator=(Buf&& o) noexcept { if (this != &o) { release(); p = o.p; n = o.n; gbase = o.gbase; gtotal = o.gtotal; o.p = nullptr; o.n = 0; o.gbase = nullptr; o.gtotal = 0; } return *this; }
    ~Buf() { release(); }
    void alloc(size_t n_, int fill = 0) {
        release(); n = n_;
        if (n == 0) { p = nullptr; return; }
        if (g_buf_guard) {
            size_t body = (n + 4095) & ~(size_t) 4095; gtotal = body + 2 * 4096;
            gbase = (uint8_t*) mmap(nullptr, gtotal, PROT_READ | PROT_WRITE, MAP_PRIVATE | MAP_ANONYMOUS, -1, 0); if (gbase == MAP_FAILED) abort();
            mprotect(gbase, 4096, PROT_NONE); mprotect(gbase + 4096 + body, 4096, PROT_NONE);
            p = g_buf_guard == 2 ? gbase + 4096 : gbase + 4096 + body - n; memset(gbase + 4096, 0xD7, body); memset(p, fill, n); return;
        }
        void* q = nullptr; if (posix_memalign(&q, 16, n) != 0) abort();
        p = (uint8_t*) q; memset(p, fill, n);
    }
    void release() { if (gbase) { munmap(gbase, gtotal); gbase = nullptr; gtotal = 0; } else if (p) free(p); p = nullptr; n = 0; }
    void* get() const { return p; }
    operator void*() const { return p; }
    bool empty() const { return p == nullptr; }
    std::string hexs() const { return hex(p, n); }
};

// byte vector whose storage is an exact-size malloc block (for untrusted input buffers)
struct Bytes {
    uint8_t* p = nullptr; size_t n = 0;
    Bytes() {}
    explicit Bytes(size_t n_, int fill = 0) { p = n_ ? (uint8_t*) malloc(n_) : nullptr; n = n_; if (p) memset(p, fill, n); }
    Bytes(const uint8_t* src, size_t n_) { p = n_ ? (uint8_t*) malloc(n_) : nullptr; n = n_; if (p) memcpy(p, src, n); }
    Bytes(const Bytes& o) : Bytes(o.p, o.n) {}
    Bytes& operator=(const Bytes& o) { if (this != &o) { free(p); p = o.n ? (uint8_t*) malloc(o.n) : nullptr; n = o.n; if (p) memcpy(p, o.p, n); } return *this; }
    Bytes(Bytes&& o) noexcept : p(o.p), n(o.n) { o.p = nullptr; o.n = 0; }
    Bytes& operator=(Bytes&& o) noexcept { if (this != &o) { free(p); p = o.p; n = o.n; o.p = nullptr; o.n = 0; } return *this; }
    ~Bytes() { free(p); }
    bool operator==(const Bytes& o) const { return n == o.n && (n == 0 || memcmp(p, o.p, n) == 0); }
    bool operator!=(const Bytes& o) const { return !(*this == o); }
    std::string hexs() const { return hex(p, n); }
};

// Untrusted / output byte buffer at a chosen misalignment: callers hand the library plain byte pointers (void*), which carry no
// alignment guarantee. The block is exact-size at its END (over-reads/over-writes hit the ASan redzone); `off` bytes of slack
// precede it so that the buffer start can sit at any address mod 16.
struct MBytes {
    uint8_t* base = nullptr; uint8_t* p = nullptr; size_t n = 0;
    // malloc returns 16-aligned blocks, so p sits at address = want (mod 16) and the block ends exactly at p + n
    MBytes(size_t n_, size_t want, int fill) { want &= 15; base = (uint8_t*) malloc(n_ + want ? n_ + want : 1); memset(base, fill, n_ + want ? n_ + want : 1); p = base + want; n = n_; }
    MBytes(const uint8_t* src, size_t n_, size_t want) : MBytes(n_, want, 0) { if (n_) memcpy(p, src, n_); }
    MBytes(const MBytes&) = delete; MBytes& operator=(const MBytes&) = delete;
    ~MBytes() { free(base); }
};

// fixed-size raw library values whose size is identical in every configuration
struct alignas(16) G1v { uint8_t b[144]; };
struct alignas(16) G2v { uint8_t b[288]; };
struct alignas(16) GTv { uint8_t b[576]; };
struct alignas(16) Frv { uint8_t b[32]; };

struct Rep {
    std::string name;       // A, A2, As, B, C
    std::string label;      // e.g. "A/bmi2"
    void* handle = nullptr;
    jv_info_t info;
    int want_dispatch = -1; // for A/A2: 1 = bmi2, 0 = baseline
#define JV_PTR(ret, name, args) ret (*name) args = nullptr;
    JV_FUNCTIONS(JV_PTR)
#undef JV_PTR

    bool load(const std::string& dir, const std::string& nm, std::string& err) {
        name = nm; label = nm;
        std::string path = dir + "/libjp_" + nm + ".so";
        handle = dlopen(path.c_str(), RTLD_NOW | RTLD_LOCAL);
        if (!handle) { err = dlerror(); return false; }
#define JV_BIND(ret, fname, args) fname = (ret (*) args) dlsym(handle, #fname); if (!fname) { err = std::string("missing symbol ") + #fname; return false; }
        JV_FUNCTIONS(JV_BIND)
#undef JV_BIND
        jv_info(&info);
        jv_bind_entry_mode(&entry_mode_cell);
        return true;
    }
    int entry_mode_cell = 0;   // the adapter's entry-mode switch lives here, not in the replica's (write-protected) image
    size_t sz(int k) const { return info.size[k]; }
    // apply the dispatch setting this replica instance stands for (no-op when it has none)
    void apply_dispatch() { if (want_dispatch >= 0 && jv_get_dispatch() != want_dispatch) jv_set_dispatch(want_dispatch); }
    std::string path() const { Dl_info di; if (dladdr((void*) jv_info, &di) && di.dli_fname) return di.dli_fname; return ""; }
};

// The replica set of one process.
struct Replicas {
    std::vector<Rep*> all;      // A/bmi2, A2/base, As, B, C (those that loaded)
    std::vector<std::string> not_built;
    std::string dir;
    Rep* by_label(const std::string& l) const { for (auto r : all) if (r->label == l) return r; return nullptr; }
    bool load(const std::string& dir_, std::string& err, const std::vector<std::string>& which = {"A", "A2", "As", "B", "C", "D", "G"}) {
        dir = dir_;
        for (auto& n : which) {
            Rep* r = new Rep();
            if ((n == "G" || n == "D") && access((dir + "/libjp_" + n + ".so").c_str(), R_OK) != 0) { delete r; continue; }      // the g++ replica exists in the plain flavour only
            if (n != "A" && n != "A2" && access((dir + "/libjp_" + n + ".so").c_str(), R_OK) != 0) { delete r; not_built.push_back(n); continue; }   // configuration that does not build from this tree (failed_<n>.txt says why)
            if (!r->load(dir, n, err)) { err = n + ": " + err; return false; }
            if (n == "A") { r->want_dispatch = 1; r->label = "A/bmi2-adx"; }
            else if (n == "A2") { r->want_dispatch = 0; r->label = "A/baseline"; }
            else if (n == "As") r->label = "As/static-bmi2";
            else if (n == "B") r->label = "B/portable64";
            else if (n == "C") r->label = "C/portable32";
            else if (n == "D") r->label = "D/portable32-O0";
            else if (n == "G") r->label = "G/g++-asm";   // run-time dispatch left exactly as the library's own load-time initialiser set it: the harness never writes this replica's table
            r->apply_dispatch();
            all.push_back(r);
        }
        return true;
    }
};

} // namespace jv
