// util.hpp - PRNG, hashing, hex, minimal JSON in/out. No wall clock, no addresses.
#pragma once
#include <stdint.h>
#include <string.h>
#include <stdio.h>
#include <stdlib.h>
#include <stdarg.h>
#include <string>
#include <vector>
#include <map>
#include <memory>

namespace jv {

// ---------------------------------------------------------------- PRNG
static inline uint64_t splitmix64(uint64_t& x) {
    uint64_t z = (x += 0x9e3779b97f4a7c15ULL);
    z = (z ^ (z >> 30)) * 0xbf58476d1ce4e5b9ULL;
    z = (z ^ (z >> 27)) * 0x94d049bb133111ebULL;
    return z ^ (z >> 31);
}
static inline uint64_t mix3(uint64_t a, uint64_t b, uint64_t c) {
    uint64_t x = a * 0x9e3779b97f4a7c15ULL ^ (b + 0x7f4a7c15ULL) * 0xbf58476d1ce4e5b9ULL ^ (c + 0x1ce4e5b9ULL) * 0x94d049bb133111ebULL;
    splitmix64(x);
    return splitmix64(x);
}
static inline uint64_t strhash(const char* s) {
    uint64_t h = 1469598103934665603ULL;
    while (*s) { h ^= (uint8_t) *s++; h *= 1099511628211ULL; }
    return h;
}

struct Rng {
    uint64_t s[4];
    explicit Rng(uint64_t seed = 1) { reseed(seed); }
    void reseed(uint64_t seed) { uint64_t x = seed; for (int i = 0; i < 4; i++) s[i] = splitmix64(x); }
    static inline uint64_t rotl(uint64_t x, int k) { return (x << k) | (x >> (64 - k)); }
    uint64_t next() {
        uint64_t r = rotl(s[1] * 5, 7) * 9, t = s[1] << 17;
        s[2] ^= s[0]; s[3] ^= s[1]; s[1] ^= s[2]; s[0] ^= s[3]; s[2] ^= t; s[3] = rotl(s[3], 45);
        return r;
    }
    // uniform in [0,n) (n>0); tiny modulo bias is irrelevant here
    uint64_t below(uint64_t n) { return n ? next() % n : 0; }
    int range(int lo, int hi) { return lo + (int) below((uint64_t) (hi - lo + 1)); }
    bool chance(unsigned num, unsigned den) { return below(den) < num; }
    void fill(void* p, size_t n) {
        uint8_t* b = (uint8_t*) p;
        while (n) { uint64_t v = next(); size_t k = n < 8 ? n : 8; memcpy(b, &v, k); b += k; n -= k; }
    }
};

// ---------------------------------------------------------------- SHA-256
struct Sha256 {
    uint32_t h[8]; uint8_t buf[64]; uint64_t len; size_t fill;
    Sha256() { reset(); }
    void reset() {
        static const uint32_t iv[8] = {0x6a09e667,0xbb67ae85,0x3c6ef372,0xa54ff53a,0x510e527f,0x9b05688c,0x1f83d9ab,0x5be0cd19};
        memcpy(h, iv, sizeof(h)); len = 0; fill = 0;
    }
    static inline uint32_t rr(uint32_t x, int n) { return (x >> n) | (x << (32 - n)); }
    void block(const uint8_t* p) {
        static const uint32_t K[64] = {
            0x428a2f98,0x71374491,0xb5c0fbcf,0xe9b5dba5,0x3956c25b,0x59f111f1,0x923f82a4,0xab1c5ed5,0xd807aa98,0x12835b01,0x243185be,0x550c7dc3,0x72be5d74,0x80deb1fe,0x9bdc06a7,0xc19bf174,
            0xe49b69c1,0xefbe4786,0x0fc19dc6,0x240ca1cc,0x2de92c6f,0x4a7484aa,0x5cb0a9dc,0x76f988da,0x983e5152,0xa831c66d,0xb00327c8,0xbf597fc7,0xc6e00bf3,0xd5a79147,0x06ca6351,0x14292967,
            0x27b70a85,0x2e1b2138,0x4d2c6dfc,0x53380d13,0x650a7354,0x766a0abb,0x81c2c92e,0x92722c85,0xa2bfe8a1,0xa81a664b,0xc24b8b70,0xc76c51a3,0xd192e819,0xd6990624,0xf40e3585,0x106aa070,
            0x19a4c116,0x1e376c08,0x2748774c,0x34b0bcb5,0x391c0cb3,0x4ed8aa4a,0x5b9cca4f,0x682e6ff3,0x748f82ee,0x78a5636f,0x84c87814,0x8cc70208,0x90befffa,0xa4506ceb,0xbef9a3f7,0xc67178f2};
        uint32_t w[64];
        for (int i = 0; i < 16; i++) w[i] = (uint32_t) p[4*i] << 24 | (uint32_t) p[4*i+1] << 16 | (uint32_t) p[4*i+2] << 8 | p[4*i+3];
        for (int i = 16; i < 64; i++) {
            uint32_t s0 = rr(w[i-15],7) ^ rr(w[i-15],18) ^ (w[i-15] >> 3), s1 = rr(w[i-2],17) ^ rr(w[i-2],19) ^ (w[i-2] >> 10);
            w[i] = w[i-16] + s0 + w[i-7] + s1;
        }
        uint32_t a=h[0],b=h[1],c=h[2],d=h[3],e=h[4],f=h[5],g=h[6],hh=h[7];
        for (int i = 0; i < 64; i++) {
            uint32_t S1 = rr(e,6)^rr(e,11)^rr(e,25), ch = (e&f)^(~e&g), t1 = hh+S1+ch+K[i]+w[i];
            uint32_t S0 = rr(a,2)^rr(a,13)^rr(a,22), mj = (a&b)^(a&c)^(b&c), t2 = S0+mj;
            hh=g; g=f; f=e; e=d+t1; d=c; c=b; b=a; a=t1+t2;
        }
        h[0]+=a;h[1]+=b;h[2]+=c;h[3]+=d;h[4]+=e;h[5]+=f;h[6]+=g;h[7]+=hh;
    }
    void update(const void* data, size_t n) {
        const uint8_t* p = (const uint8_t*) data; len += n;
        while (n) {
            size_t k = 64 - fill; if (k > n) k = n;
            memcpy(buf + fill, p, k); fill += k; p += k; n -= k;
            if (fill == 64) { block(buf); fill = 0; }
        }
    }
    void update(const std::string& s) { update(s.data(), s.size()); }
    void final(uint8_t out[32]) {
        uint64_t bits = len * 8; uint8_t pad = 0x80; update(&pad, 1);
        uint8_t z = 0; while (fill != 56) update(&z, 1);
        uint8_t lb[8]; for (int i = 0; i < 8; i++) lb[i] = (uint8_t) (bits >> (56 - 8*i));
        update(lb, 8);
        for (int i = 0; i < 8; i++) { out[4*i]=h[i]>>24; out[4*i+1]=h[i]>>16; out[4*i+2]=h[i]>>8; out[4*i+3]=h[i]; }
    }
};

static inline std::string hex(const void* p, size_t n) {
    static const char* d = "0123456789abcdef";
    std::string s; s.resize(2 * n);
    const uint8_t* b = (const uint8_t*) p;
    for (size_t i = 0; i < n; i++) { s[2*i] = d[b[i] >> 4]; s[2*i+1] = d[b[i] & 15]; }
    return s;
}
static inline std::vector<uint8_t> unhex(const std::string& s) {
    std::vector<uint8_t> v; v.reserve(s.size() / 2);
    auto val = [](char c) -> int { if (c >= '0' && c <= '9') return c - '0'; if (c >= 'a' && c <= 'f') return c - 'a' + 10; if (c >= 'A' && c <= 'F') return c - 'A' + 10; return 0; };
    for (size_t i = 0; i + 1 < s.size(); i += 2) v.push_back((uint8_t) (val(s[i]) << 4 | val(s[i+1])));
    return v;
}
static inline std::string sha_hex(const void* p, size_t n, size_t outbytes = 8) {
    Sha256 s; s.update(p, n); uint8_t o[32]; s.final(o); return hex(o, outbytes);
}
static inline uint64_t hash64(const void* p, size_t n) {
    Sha256 s; s.update(p, n); uint8_t o[32]; s.final(o); uint64_t v; memcpy(&v, o, 8); return v;
}
static inline uint64_t hash64(const std::string& s) { return hash64(s.data(), s.size()); }

static inline std::string strf(const char* fmt, ...) __attribute__((format(printf, 1, 2)));
static inline std::string strf(const char* fmt, ...) {
    char buf[4096]; va_list ap; va_start(ap, fmt); int n = vsnprintf(buf, sizeof(buf), fmt, ap); va_end(ap);
    if (n < 0) return "";
    if ((size_t) n < sizeof(buf)) return std::string(buf, n);
    std::string s; s.resize(n + 1); va_start(ap, fmt); vsnprintf(&s[0], n + 1, fmt, ap); va_end(ap); s.resize(n); return s;
}

// ---------------------------------------------------------------- JSON (tiny)
struct Json;
typedef std::shared_ptr<Json> JsonP;
struct Json {
    enum T { NUL, BOOL, NUM, STR, ARR, OBJ } t = NUL;
    bool b = false; double num = 0; int64_t inum = 0; bool is_int = false; std::string s;
    std::vector<JsonP> a; std::vector<std::pair<std::string, JsonP>> o;
    static JsonP mk(T t) { auto j = std::make_shared<Json>(); j->t = t; return j; }
    static JsonP str(const std::string& v) { auto j = mk(STR); j->s = v; return j; }
    static JsonP integer(int64_t v) { auto j = mk(NUM); j->inum = v; j->num = (double) v; j->is_int = true; return j; }
    static JsonP real(double v) { auto j = mk(NUM); j->num = v; return j; }
    static JsonP boolean(bool v) { auto j = mk(BOOL); j->b = v; return j; }
    static JsonP arr() { return mk(ARR); }
    static JsonP obj() { return mk(OBJ); }
    Json& set(const std::string& k, JsonP v) { for (auto& kv : o) if (kv.first == k) { kv.second = v; return *this; } o.push_back({k, v}); return *this; }
    Json& set(const std::string& k, const std::string& v) { return set(k, str(v)); }
    Json& set(const std::string& k, const char* v) { return set(k, str(v)); }
    Json& seti(const std::string& k, int64_t v) { return set(k, integer(v)); }
    Json& setd(const std::string& k, double v) { return set(k, real(v)); }
    Json& setb(const std::string& k, bool v) { return set(k, boolean(v)); }
    Json& push(JsonP v) { a.push_back(v); return *this; }
    JsonP get(const std::string& k) const { for (auto& kv : o) if (kv.first == k) return kv.second; return nullptr; }
    std::string gets(const std::string& k, const std::string& d = "") const { auto j = get(k); return j && j->t == STR ? j->s : d; }
    int64_t geti(const std::string& k, int64_t d = 0) const { auto j = get(k); return j && j->t == NUM ? (j->is_int ? j->inum : (int64_t) j->num) : d; }
    static void esc(std::string& out, const std::string& s) {
        out += '"';
        for (unsigned char c : s) {
            if (c == '"') out += "\\\""; else if (c == '\\') out += "\\\\"; else if (c == '\n') out += "\\n"; else if (c == '\t') out += "\\t"; else if (c == '\r') out += "\\r";
            else if (c < 0x20) out += strf("\\u%04x", c); else out += (char) c;
        }
        out += '"';
    }
    void dump(std::string& out, int ind = 0, bool pretty = true) const {
        std::string pad(pretty ? ind : 0, ' '), pad2(pretty ? ind + 1 : 0, ' ');
        const char* nl = pretty ? "\n" : "";
        switch (t) {
        case NUL: out += "null"; break;
        case BOOL: out += b ? "true" : "false"; break;
        case NUM: if (is_int) out += strf("%lld", (long long) inum); else out += strf("%.6g", num); break;
        case STR: esc(out, s); break;
        case ARR:
            if (a.empty()) { out += "[]"; break; }
            out += "["; out += nl;
            for (size_t i = 0; i < a.size(); i++) { out += pad2; a[i]->dump(out, ind + 1, pretty); if (i + 1 < a.size()) out += ","; out += nl; }
            out += pad; out += "]"; break;
        case OBJ:
            if (o.empty()) { out += "{}"; break; }
            out += "{"; out += nl;
            for (size_t i = 0; i < o.size(); i++) { out += pad2; esc(out, o[i].first); out += pretty ? ": " : ":"; o[i].second->dump(out, ind + 1, pretty); if (i + 1 < o.size()) out += ","; out += nl; }
            out += pad; out += "}"; break;
        }
    }
    std::string dump(bool pretty = true) const { std::string s; dump(s, 0, pretty); return s; }
};

struct JsonParser {
    std::string src; const char* p; const char* e; bool ok = true;
    JsonParser(const std::string& s) : src(s) { p = src.data(); e = src.data() + src.size(); }
    void ws() { while (p < e && (*p == ' ' || *p == '\n' || *p == '\t' || *p == '\r')) p++; }
    JsonP parse() { ws(); JsonP j = value(); ws(); return ok ? j : nullptr; }
    JsonP value() {
        ws(); if (p >= e) { ok = false; return Json::mk(Json::NUL); }
        if (*p == '{') {
            p++; auto j = Json::obj(); ws();
            if (p < e && *p == '}') { p++; return j; }
            while (ok) {
                ws(); if (p >= e || *p != '"') { ok = false; break; }
                std::string k = string(); ws(); if (p >= e || *p != ':') { ok = false; break; } p++;
                j->o.push_back({k, value()}); ws();
                if (p < e && *p == ',') { p++; continue; }
                if (p < e && *p == '}') { p++; break; }
                ok = false;
            }
            return j;
        }
        if (*p == '[') {
            p++; auto j = Json::arr(); ws();
            if (p < e && *p == ']') { p++; return j; }
            while (ok) {
                j->a.push_back(value()); ws();
                if (p < e && *p == ',') { p++; continue; }
                if (p < e && *p == ']') { p++; break; }
                ok = false;
            }
            return j;
        }
        if (*p == '"') return Json::str(string());
        if (!strncmp(p, "true", 4) && e - p >= 4) { p += 4; return Json::boolean(true); }
        if (!strncmp(p, "false", 5) && e - p >= 5) { p += 5; return Json::boolean(false); }
        if (!strncmp(p, "null", 4) && e - p >= 4) { p += 4; return Json::mk(Json::NUL); }
        char* end = nullptr; std::string tmp(p, (size_t) (e - p) < 64 ? (size_t) (e - p) : 64);
        double d = strtod(tmp.c_str(), &end);
        if (end == tmp.c_str()) { ok = false; return Json::mk(Json::NUL); }
        size_t used = end - tmp.c_str(); std::string tok = tmp.substr(0, used); p += used;
        if (tok.find_first_of(".eE") == std::string::npos) return Json::integer(strtoll(tok.c_str(), nullptr, 10));
        return Json::real(d);
    }
    std::string string() {
        std::string s; p++;
        while (p < e && *p != '"') {
            if (*p == '\\' && p + 1 < e) {
                p++;
                switch (*p) {
                case 'n': s += '\n'; break; case 't': s += '\t'; break; case 'r': s += '\r'; break;
                case 'u': { if (e - p >= 5) { s += (char) strtol(std::string(p + 1, 4).c_str(), nullptr, 16); p += 4; } break; }
                default: s += *p;
                }
                p++;
            } else s += *p++;
        }
        if (p < e) p++; else ok = false;
        return s;
    }
};

static inline bool read_file(const std::string& path, std::string& out) {
    FILE* f = fopen(path.c_str(), "rb"); if (!f) return false;
    char buf[65536]; size_t n; out.clear();
    while ((n = fread(buf, 1, sizeof(buf), f)) > 0) out.append(buf, n);
    fclose(f); return true;
}
static inline bool write_file(const std::string& path, const std::string& data) {
    std::string tmp = path + ".tmp";
    FILE* f = fopen(tmp.c_str(), "wb"); if (!f) return false;
    fwrite(data.data(), 1, data.size(), f); fclose(f);
    return rename(tmp.c_str(), path.c_str()) == 0;
}

} // namespace jv
