// wkd_model.hpp - M-wkd: reference model of WKD-IBE keys, ciphertexts, signatures and
// precomputed products, tracking the exact randomness of every object (known because every
// draw went through the simulator's stream), plus thin value wrappers over the replica ABI.
#pragma once
#include "core.hpp"
#include "wire.hpp"
#include "bn.hpp"

namespace jv {

enum { ST_FREE = 0, ST_FIXED = 1, ST_HIDDEN = 2 };
struct Slot { int st = ST_FREE; Bn v; };                       // v reduced mod r when FIXED
struct MAttr { uint32_t idx; Bn id; bool omit; };               // id: the 256-bit value actually passed

static inline std::string pat_str(const std::vector<Slot>& p) {
    std::string s;
    for (auto& x : p) s += x.st == ST_FREE ? "_" : x.st == ST_HIDDEN ? "h" : (x.v.is_zero() ? "0" : "v");
    return s;
}

// value codes used in plans -> 256-bit values
static inline Bn value_of_code(const std::string& c) {
    const Bn& r = K().r;
    if (c.size() > 2 && c.compare(c.size() - 2, 2, "+r") == 0 && c != "2r+r") return Bn::mod(Bn::add(value_of_code(c.substr(0, c.size() - 2)), r), K().two256);
    if (c.compare(0, 3, "xd:") == 0) {   // digits d3:d2:d1:d0 of the base-|x| expansion (each a number, m1/m2 = |x|-1/-2, x = |x|, xp1 = |x|+1: a top digit may exceed the base)
        Bn v(0); size_t pos = 3; for (int i = 0; i < 4; i++) { size_t e = c.find(':', pos); std::string t = c.substr(pos, e == std::string::npos ? std::string::npos : e - pos); pos = e == std::string::npos ? c.size() : e + 1;
            Bn d = t == "m1" ? Bn::sub(K().absx, Bn(1)) : t == "m2" ? Bn::sub(K().absx, Bn(2)) : t == "x" ? K().absx : t == "xp1" ? Bn::add(K().absx, Bn(1)) : Bn((uint64_t) strtoull(t.c_str(), nullptr, 10));
            v = Bn::add(Bn::mul(v, K().absx), d); }
        return Bn::mod(v, K().two256); }
    if (c.compare(0, 4, "glv:") == 0) { int d0 = 1, d1 = 1, t = 0, sg = 0; unsigned long long es = 0; sscanf(c.c_str() + 4, "%d:%d:%d:%d:%llu", &d0, &d1, &t, &sg, &es); return glv_scalar(d0, d1, t, sg, es); }
    if (c == "0") return Bn(0); if (c == "1") return Bn(1); if (c == "2") return Bn(2); if (c == "3") return Bn(3);
    if (c == "r-1") return Bn::sub(r, Bn(1)); if (c == "r") return r; if (c == "r+1") return Bn::add(r, Bn(1));
    if (c == "2r") return Bn::add(r, r); if (c == "2r+1") return Bn::add(Bn::add(r, r), Bn(1));
    if (c == "max") return Bn::sub(K().two256, Bn(1));
    if (c.compare(0, 2, "2^") == 0) {   // 2^N, 2^N+M, 2^N-M : values whose set bits sit on or next to limb boundaries (64, 128, 192 ...)
        char* e = nullptr; long n = strtol(c.c_str() + 2, &e, 10); Bn v = Bn(1).shl((int) n);
        if (*e == '+') v = Bn::add(v, Bn(strtoull(e + 1, nullptr, 10))); else if (*e == '-') v = Bn::sub(v, Bn(strtoull(e + 1, nullptr, 10)));
        return v;
    }
    if (c.size() > 1 && c[0] == 'x') { std::vector<uint8_t> b = unhex(c.substr(1)); b.resize(32); return Bn::from_le(b.data(), 32); }
    return Bn((uint64_t) strtoull(c.c_str(), nullptr, 10));
}
// A 48-byte digest whose hash-to-curve walk passes 34 consecutive x values that are not x coordinates of curve points (probability 2^-34 per
// digest; found offline by tools/run_search.cpp, re-verified through the library wherever it is used). j = 0..3 starts the walk j steps in.
static inline std::string long_walk_digest(unsigned j) {
    Bn x0 = Bn::from_hex("0024fc4983fefcb7c3607edcece81f66d677f402e8273cb552cda48bb083b992314c5ca6081ac6ae5f31828843d403c7");
    uint8_t b[48]; Bn::add(x0, Bn((uint64_t) (j % 4))).to_be(b, 48); return hex(b, 48);
}
// a random member of the GLV-collision family (see glv_scalar), biased towards d0 == d1 and small t
template <typename RNG> static inline std::string glv_code(RNG& r) {
    static const int ds[] = {1, 3, 5, 7}; int d0 = ds[r.below(4)], d1 = r.chance(2, 3) ? d0 : ds[r.below(4)];
    int t = r.chance(1, 2) ? 0 : r.chance(1, 2) ? r.range(1, 8) : r.range(9, 120);
    return strf("glv:%d:%d:%d:%d:%llu%s", d0, d1, t, (int) r.below(4), (unsigned long long) (r.chance(1, 2) ? 0 : 1 + r.below(1000)), r.chance(1, 4) ? "+r" : "");
}
static inline const std::vector<std::string>& value_codes() { static const std::vector<std::string> v = {"0", "1", "2", "3", "r-1", "r", "r+1", "2r", "2r+1", "max", "2^255", "2^64", "2^64-1", "2^128", "2^128+5", "2^127+3", "2^192+7", "2^130+9", "2^232", "2^32", "2^96+1", "glv:1:1:0:2:0", "glv:1:1:0:1:0", "glv:3:3:0:2:0", "glv:1:1:1:2:0", "glv:5:5:3:1:9", "glv:1:1:0:2:0+r"}; return v; }

// Thin typed wrappers (C++ view, reference paths) used by the models.
struct W {
    RunEnv& env; Rep& R;
    explicit W(RunEnv& e) : env(e), R(*e.rep) {}
    static void le32(uint8_t out[32], const Bn& k) { k.to_le(out, 32); }
    G1v g1mul(const G1v& p, const Bn& k) { G1v o; uint8_t b[32]; le32(b, k); R.jv_g1_mul_ref(o.b, p.b, b); return o; }
    G2v g2mul(const G2v& p, const Bn& k) { G2v o; uint8_t b[32]; le32(b, k); R.jv_g2_mul_ref(o.b, p.b, b); return o; }
    G1v g1add(const G1v& a, const G1v& b) { G1v o; R.jv_g1_add(1, o.b, a.b, b.b); return o; }
    G2v g2add(const G2v& a, const G2v& b) { G2v o; R.jv_g2_add(1, o.b, a.b, b.b); return o; }
    G1v g1neg(const G1v& a) { G1v o; R.jv_g1_negate(1, o.b, a.b); return o; }
    G1v g1zero() { G1v o; R.jv_const_get(JV_EK_G1, 0, o.b); return o; }
    G2v g2zero() { G2v o; R.jv_const_get(JV_EK_G2, 0, o.b); return o; }
    GTv gtone() { GTv o; R.jv_const_get(JV_EK_GT, 0, o.b); return o; }
    GTv gtmul(const GTv& a, const GTv& b) { GTv o; R.jv_gt_mul(o.b, a.b, b.b); return o; }
    GTv gtpow(const GTv& a, const Bn& k) { GTv o; uint8_t b[32]; le32(b, k); R.jv_gt_pow_ref(o.b, a.b, b); return o; }
    GTv pair(const G1v& p, const G2v& q) {
        Buf pa(R.sz(JV_SZ_G1A)), qa(R.sz(JV_SZ_G2A)); GTv o;
        R.jv_g1affine_from_projective(1, pa, p.b); R.jv_g2affine_from_projective(1, qa, q.b); R.jv_pairing(1, o.b, pa, qa); return o;
    }
    std::string c1(const G1v& p) { uint8_t c[97]; R.jv_g1_canon(c, p.b); return std::string((char*) c, 97); }
    std::string c2(const G2v& p) { uint8_t c[193]; R.jv_g2_canon(c, p.b); return std::string((char*) c, 193); }
    std::string ct(const GTv& p) { return std::string((const char*) p.b, 576); }
    bool g1zero_p(const G1v& p) { return c1(p)[0] == 1; }
    template <typename V> V field(int ok, void* obj, int f, int idx = 0) { int ek = 0; void* p = R.jv_field(ok, obj, f, idx, &ek); V v; memcpy(v.b, p, sizeof(v.b)); return v; }
    template <typename V> void setfield(int ok, void* obj, int f, int idx, const V& v) { int ek = 0; void* p = R.jv_field(ok, obj, f, idx, &ek); memcpy(p, v.b, sizeof(v.b)); }
};

// The public parameters and master secret as the model sees them.
struct SysM {
    int l = 0; bool sig = false; Bn alpha;
    Buf params, harr, msk;
    G2v g, g1; G1v g2, g3, hsig, mskv; std::vector<G1v> h; GTv pairing;
    void extract(W& w) {
        g = w.field<G2v>(JV_OK_WK_PARAMS, params, JV_F_P_G); g1 = w.field<G2v>(JV_OK_WK_PARAMS, params, JV_F_P_G1);
        g2 = w.field<G1v>(JV_OK_WK_PARAMS, params, JV_F_P_G2); g3 = w.field<G1v>(JV_OK_WK_PARAMS, params, JV_F_P_G3);
        hsig = w.field<G1v>(JV_OK_WK_PARAMS, params, JV_F_P_HSIG); pairing = w.field<GTv>(JV_OK_WK_PARAMS, params, JV_F_P_PAIRING);
        h.clear(); for (int i = 0; i < l; i++) h.push_back(w.field<G1v>(JV_OK_WK_PARAMS, params, JV_F_P_H, i));
        mskv = w.field<G1v>(JV_OK_WK_MSK, msk, JV_F_MSK_G2ALPHA);
    }
    // P = g3 * prod h_i^{e_i}
    G1v prod(W& w, const std::vector<Bn>& exps) { G1v p = g3; for (int i = 0; i < l; i++) if (!exps[(size_t) i].is_zero()) p = w.g1add(p, w.g1mul(h[(size_t) i], exps[(size_t) i])); return p; }
};

static inline std::vector<Bn> exps_of_pattern(const std::vector<Slot>& p) { std::vector<Bn> e; for (auto& s : p) e.push_back(s.st == ST_FIXED ? s.v : Bn(0)); return e; }
static inline std::vector<Bn> exps_of_list(const std::vector<MAttr>& L, int l) {
    std::vector<Bn> e((size_t) l); for (auto& a : L) if ((int) a.idx < l) e[a.idx] = Bn::mod(a.id, K().r); return e;   // omit flag does not matter to precompute
}
static inline bool exps_equal(const std::vector<Bn>& a, const std::vector<Bn>& b) { if (a.size() != b.size()) return false; for (size_t i = 0; i < a.size(); i++) if (a[i] != b[i]) return false; return true; }

// The list a call receives is in the library's own format in an exact-size heap block of the caller (so that a read of entry n is
// outside the block, and so that a library that writes to its const input list is seen): built through the adapter for the replica
// and view of the running plan (thread-locals set by execute_plan). When the block differs after the call from what was built,
// tl_list_modified is set; scenarios turn that into a violation at the end of the op.
extern thread_local Rep* tl_env_rep; extern thread_local int tl_env_view; extern thread_local const char* tl_list_modified;
struct JAttrs {      // storage for a jv_attrs passed to the adapter
    std::vector<jv_attr> a; jv_attrs l; uint8_t* nat = nullptr; size_t nat_n = 0; std::vector<uint8_t> nat_copy;
    // order: how the caller wrote the entries down - 0 ascending slot index (what every key-deriving call needs), 1 descending, >= 2 a permutation
    // seeded by the value. encrypt / precompute / verify take the product over the entries and accept any order.
    JAttrs(const std::vector<MAttr>& L, bool omit_all, bool is_null = false, uint64_t order = 0) {
        for (auto& m : L) { jv_attr x; memset(&x, 0, sizeof(x)); m.id.to_le(x.id, 32); x.idx = m.idx; x.omit = m.omit ? 1 : 0; a.push_back(x); }
        if (order == 1) std::reverse(a.begin(), a.end());
        else if (order >= 2) { uint64_t st = order * 0x9E3779B97F4A7C15ull + 1; for (size_t i = a.size(); i > 1; i--) { st ^= st << 13; st ^= st >> 7; st ^= st << 17; std::swap(a[i - 1], a[(size_t) (st % i)]); } }
        l.a = a.data(); l.n = a.size(); l.omit_all = omit_all ? 1 : 0; l.is_null = is_null ? 1 : 0; l.native = nullptr;
        if (tl_env_rep && !is_null) {
            nat_n = tl_env_rep->jv_wk_native_list_bytes(tl_env_view, a.size()); nat = (uint8_t*) malloc(nat_n);
            tl_env_rep->jv_wk_native_list_build(tl_env_view, nat, &l); l.native = nat; nat_copy.assign(nat, nat + nat_n);
        }
    }
    // If this list equals the first entries of `longer` (values, indices, flags), hold it the way a caller holds a path and its prefix:
    // as a second header over the SAME array. Returns true when the two lists now share their array.
    bool share_array_with(JAttrs& longer) {
        if (!nat || !longer.nat || a.size() > longer.a.size() || a.empty()) return false;
        for (size_t i = 0; i < a.size(); i++) if (memcmp(&a[i], &longer.a[i], sizeof(jv_attr)) != 0) return false;
        tl_env_rep->jv_wk_native_list_alias(tl_env_view, nat, longer.nat, a.size()); nat_copy.assign(nat, nat + nat_n); return true;
    }
    JAttrs(const JAttrs&) = delete; JAttrs& operator=(const JAttrs&) = delete;
    ~JAttrs() { if (nat) { if (memcmp(nat, nat_copy.data(), nat_n) != 0) tl_list_modified = "an attribute list passed as a const input was modified by the call"; free(nat); } }
};

static inline std::string list_str(const std::vector<MAttr>& L) {
    std::string s = "{";
    for (auto& a : L) { s += std::to_string(a.idx) + ":" + (a.omit ? "hidden" : (a.id.bitlen() <= 16 ? std::to_string(a.id.low64()) : "0x" + a.id.hexstr(32))) + " "; }
    return s + "}";
}

} // namespace jv
