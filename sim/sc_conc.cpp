// sc_conc.cpp - scenario "conc" (C20): several caller threads enter the library concurrently on
// shared read-only inputs and distinct outputs, under a serialising seeded scheduler that
// preempts at the H1 yield points inside field multiplications and at the random/hash callbacks.
// Oracles: (1) M-solo refinement - every output equals the output of the same script run alone;
// (2) write trap on the replicas' writable image and on the shared-input arena; (3) environment
// trap on libc entry points; (4) no TLS segment in any replica.
#include <algorithm>
#include <set>
#include "core.hpp"
#include "wkd_model.hpp"
#include "sched.hpp"
#include "trap.hpp"

namespace jv {

static bool g_modules_protected = false;
static std::string g_tls_modules;
static size_t g_protected_bytes = 0;

// Static initialisers (dispatch table, Fp<>::one) have run at dlopen; from here on the replicas' image is read-only. Called by the C20 check
// in the parent right after loading (so that not even the first library call of any worker may write: a lazily initialised table is state
// written after load), and again - a no-op then - by the first conc run of a process.
void conc_protect_modules(Replicas& reps) {
    if (g_modules_protected || getenv("JV_REPLICA_FLAVOUR")) return;   // (coverage builds write their counters into the image)
    for (auto rp : reps.all) { if (!rp->handle || rp->info.sanitized) continue; bool tls = false; rp->apply_dispatch(); g_protected_bytes += trap_protect_module(rp->path().c_str(), ("replica " + rp->label + " writable image (static storage)").c_str(), tls); if (tls) g_tls_modules += rp->label + " "; }
    g_modules_protected = true;
}

struct Arena {
    uint8_t* base = nullptr; size_t cap = 0, used = 0;
    void init(size_t n) { base = (uint8_t*) trap_arena_alloc(n); cap = n; used = 0; }
    void* take(size_t n) { used = (used + 15) & ~(size_t) 15; void* p = base + used; used += n; if (used > cap) abort(); memset(p, 0, n); return p; }
    ~Arena() { if (base) trap_arena_free(base, cap); }
};

struct ConcRun {
    static const int NKINDS = 37;
    RunEnv& env; Rep& R; int view; const Plan& plan;
    Arena sh;                       // shared inputs, sealed read-only during the task phases
    // shared objects
    void *g1p[3], *g2p[3], *prep, *gt, *wparams, *wmsk, *wkey, *wct, *wsig, *lqparams, *lqmsk, *lqid, *lqsk, *lqct;
    void* wtab[2][2] = {{nullptr, nullptr}, {nullptr, nullptr}};   // caller-built w-NAF tables [group][window 4/5] that several tasks multiply from (wnaf.hpp, C++ API)
    std::vector<uint8_t> params_bytes, key_bytes, ct_bytes, sig_bytes;
    std::vector<uint8_t> params_bad, key_bad, ct_bad, sig_bad, g1_bad, g2_bad, lqp_bad;   // uncompressed bytes with the last coordinate byte of the last element flipped (off the curve): the error paths of validating unmarshal
    jv_attr* sh_at[4] = {nullptr, nullptr, nullptr, nullptr};   // attribute arrays that several tasks read concurrently (sealed): ascending lists {0:5, 1:7+v, 2:9}
    jv_attr* sh_desc = nullptr;                                  // the same three slots in descending order (any order is accepted by precompute/encrypt/sign/verify)
    struct TaskOut { std::vector<std::string> digests; uint64_t stream_requests = 0; std::string err; };
    ConcRun(RunEnv& e, const Plan& p) : env(e), R(*e.rep), view(e.view), plan(p) {}

    void* nat_asc[4][3] = {{nullptr}}; void* nat_desc = nullptr;   // the same lists in the library's own format, in the sealed arena
    jv_attrs mk_attrs(jv_attr* store, size_t n) {
        jv_attrs a; a.a = store; a.n = n; a.omit_all = 0; a.is_null = 0; a.native = nullptr;
        for (int v = 0; v < 4; v++) if (store == sh_at[v] && n >= 1 && n <= 3) a.native = nat_asc[v][n - 1];
        if (store == sh_desc && n == 3) a.native = nat_desc;
        return a;
    }
    static void set_attr(jv_attr& a, uint32_t idx, uint64_t v) { memset(&a, 0, sizeof(a)); a.idx = idx; memcpy(a.id, &v, 8); }

    void build_shared() {
        sh.init(1 << 18);
        Stream st; st.reseed((uint64_t) plan.c("setup_seed", 1)); tl_stream = &st; st.begin_call(100000);
        Buf gen1(R.sz(JV_SZ_G1A)), gen2(R.sz(JV_SZ_G2A)); R.jv_const_get(JV_EK_G1A, 1, gen1); R.jv_const_get(JV_EK_G2A, 1, gen2);
        for (int i = 0; i < 3; i++) {
            g1p[i] = sh.take(R.sz(JV_SZ_G1A)); g2p[i] = sh.take(R.sz(JV_SZ_G2A));
            uint8_t k[32]; st.rng.fill(k, 32); G1v a; G2v b;
            R.jv_g1_multiply_affine(view, a.b, gen1, k); R.jv_g1affine_from_projective(view, g1p[i], a.b);
            st.rng.fill(k, 32); R.jv_g2_multiply_affine(view, b.b, gen2, k); R.jv_g2affine_from_projective(view, g2p[i], b.b);
        }
        prep = sh.take(R.sz(JV_SZ_G2P)); R.jv_g2prepared_prepare(view, prep, g2p[0]);
        gt = sh.take(576); R.jv_pairing(view, gt, g1p[0], g2p[1]);
        int l = 3;
        wparams = sh.take(R.sz(JV_SZ_WK_PARAMS)); void* h = sh.take((size_t) l * R.sz(JV_SZ_G1)); wmsk = sh.take(R.sz(JV_SZ_WK_MSK));
        R.jv_wk_params_init(wparams, h, l); R.jv_wk_setup(view, wparams, wmsk, l, 1, jv_rand_cb);
        wkey = sh.take(R.sz(JV_SZ_WK_SK)); void* b = sh.take((size_t) l * R.sz(JV_SZ_WK_FREESLOT)); R.jv_wk_sk_init(wkey, b);
        jv_attr at[2]; set_attr(at[0], 0, 5); jv_attrs al = mk_attrs(at, 1);
        R.jv_wk_keygen(view, wkey, wparams, wmsk, &al, jv_rand_cb);
        wct = sh.take(R.sz(JV_SZ_WK_CT)); R.jv_wk_encrypt(view, wct, gt, wparams, &al, jv_rand_cb);
        wsig = sh.take(R.sz(JV_SZ_WK_SIG)); uint8_t m[32] = {7}; R.jv_wk_sign(view, wsig, wparams, wkey, &al, m, jv_rand_cb);
        // (the arena is not sealed yet: serialising an object is a read of it and of what it points at - compare the whole arena around these calls)
        std::vector<uint8_t> arena_before(sh.base, sh.base + sh.used);
        { size_t n = R.jv_wk_get_marshalled_length(view, JV_OK_WK_SK, wkey, 0); key_bytes.resize(n); R.jv_wk_marshal(view, JV_OK_WK_SK, key_bytes.data(), wkey, 0); n = R.jv_wk_get_marshalled_length(view, JV_OK_WK_CT, wct, 1); ct_bytes.resize(n); R.jv_wk_marshal(view, JV_OK_WK_CT, ct_bytes.data(), wct, 1); n = R.jv_wk_get_marshalled_length(view, JV_OK_WK_SIG, wsig, 0); sig_bytes.resize(n); R.jv_wk_marshal(view, JV_OK_WK_SIG, sig_bytes.data(), wsig, 0); }
        size_t pl = R.jv_wk_get_marshalled_length(view, JV_OK_WK_PARAMS, wparams, 1); params_bytes.resize(pl); R.jv_wk_marshal(view, JV_OK_WK_PARAMS, params_bytes.data(), wparams, 1);
        { std::vector<uint8_t> pu(R.jv_wk_get_marshalled_length(view, JV_OK_WK_PARAMS, wparams, 0)); R.jv_wk_marshal(view, JV_OK_WK_PARAMS, pu.data(), wparams, 0); }
        for (size_t i = 0; i < arena_before.size(); i++) if (sh.base[i] != arena_before[i]) env.fail("C20", "const-input-written", strf("marshalling the freshly set-up parameters / key / ciphertext / signature changed byte %zu of the objects being serialised (or of the arrays they point at)", i));
        lqparams = sh.take(R.sz(JV_SZ_LQ_PARAMS)); lqmsk = sh.take(R.sz(JV_SZ_LQ_MSK)); R.jv_lq_setup(view, lqparams, lqmsk, jv_rand_cb);
        lqid = sh.take(R.sz(JV_SZ_LQ_ID)); uint8_t hs[48]; st.rng.fill(hs, 48); R.jv_lq_compute_id_from_hash(view, lqid, hs);
        lqsk = sh.take(R.sz(JV_SZ_LQ_SK)); R.jv_lq_keygen(view, lqsk, lqmsk, lqid);
        lqct = sh.take(R.sz(JV_SZ_LQ_CT)); uint8_t sym[16]; HashStub hsb; tl_hash = &hsb; R.jv_lq_encrypt(view, lqct, sym, 16, lqparams, lqid, jv_hash_cb, jv_rand_cb);
        tl_stream = nullptr; tl_hash = nullptr;
        { auto bad = [&](int ok, void* obj) { size_t n = R.jv_wk_get_marshalled_length(view, ok, obj, 0); std::vector<uint8_t> b(n); R.jv_wk_marshal(view, ok, b.data(), obj, 0); b[n - 1] ^= 1; return b; };
          params_bad = bad(JV_OK_WK_PARAMS, wparams); ct_bad = bad(JV_OK_WK_CT, wct); sig_bad = bad(JV_OK_WK_SIG, wsig);
          key_bad = bad(JV_OK_WK_SK, wkey); if (key_bad.size() > 8) { key_bad[key_bad.size() - 1] ^= 1; key_bad[key_bad.size() - 5] ^= 1; }   // a key ends with a 4-byte slot index: damage the element before it
          g1_bad.resize(96); R.jv_g1_marshal(view, g1_bad.data(), g1p[0], 0); g1_bad[95] ^= 1; g2_bad.resize(192); R.jv_g2_marshal(view, g2_bad.data(), g2p[0], 0); g2_bad[191] ^= 1;
          lqp_bad.resize(R.jv_lq_get_marshalled_length(view, JV_OK_LQ_PARAMS, 0)); R.jv_lq_marshal(view, JV_OK_LQ_PARAMS, lqp_bad.data(), lqparams, 0); lqp_bad[lqp_bad.size() - 1] ^= 1; }
        for (int g = 0; g < 2; g++) for (int w = 0; w < 2; w++) { wtab[g][w] = sh.take(R.jv_wnaf_table_bytes(g + 1, 4 + w)); R.jv_wnaf_table_build(g + 1, 4 + w, wtab[g][w], g ? g2p[1] : g1p[1]); }
        for (int v4 = 0; v4 < 4; v4++) { sh_at[v4] = (jv_attr*) sh.take(3 * sizeof(jv_attr)); set_attr(sh_at[v4][0], 0, 5); set_attr(sh_at[v4][1], 1, 7 + (uint64_t) v4); set_attr(sh_at[v4][2], 2, 9); }
        sh_desc = (jv_attr*) sh.take(3 * sizeof(jv_attr)); set_attr(sh_desc[0], 2, 9); set_attr(sh_desc[1], 1, 7); set_attr(sh_desc[2], 0, 5);
        for (int v4 = 0; v4 < 4; v4++) for (size_t n = 1; n <= 3; n++) { jv_attrs t; t.a = sh_at[v4]; t.n = n; t.omit_all = 0; t.is_null = 0; t.native = nullptr; void* m = sh.take(R.jv_wk_native_list_bytes(view, n)); R.jv_wk_native_list_build(view, m, &t); nat_asc[v4][n - 1] = m; }
        { jv_attrs t; t.a = sh_desc; t.n = 3; t.omit_all = 0; t.is_null = 0; t.native = nullptr; void* m = sh.take(R.jv_wk_native_list_bytes(view, 3)); R.jv_wk_native_list_build(view, m, &t); nat_desc = m; }
        if (plan.c("reload", 0)) {
            // the parties restarted: every shared object was reloaded from its durable (compressed where there is a choice) bytes, as a
            // deployment does, so whatever unmarshal leaves to be filled in lazily would be filled in by the first concurrent caller
            env.count("fault:restart_from_durable_bytes");
            { void* p2 = sh.take(R.sz(JV_SZ_WK_PARAMS)); void* h2 = sh.take((size_t) l * R.sz(JV_SZ_G1)); R.jv_wk_params_init(p2, h2, l); std::vector<uint8_t> cb(R.jv_wk_get_marshalled_length(view, JV_OK_WK_PARAMS, wparams, 1)); R.jv_wk_marshal(view, JV_OK_WK_PARAMS, cb.data(), wparams, 1); if (R.jv_wk_unmarshal(view, JV_OK_WK_PARAMS, p2, cb.data(), 1, 1)) wparams = p2; }
            { void* k2 = sh.take(R.sz(JV_SZ_WK_SK)); void* b2 = sh.take((size_t) l * R.sz(JV_SZ_WK_FREESLOT)); R.jv_wk_sk_init(k2, b2); std::vector<uint8_t> cb(R.jv_wk_get_marshalled_length(view, JV_OK_WK_SK, wkey, 1)); R.jv_wk_marshal(view, JV_OK_WK_SK, cb.data(), wkey, 1); R.jv_wk_set_length(view, JV_OK_WK_SK, k2, cb.data(), cb.size(), 1); if (R.jv_wk_unmarshal(view, JV_OK_WK_SK, k2, cb.data(), 1, 1)) wkey = k2; }
            { void* c2 = sh.take(R.sz(JV_SZ_WK_CT)); if (R.jv_wk_unmarshal(view, JV_OK_WK_CT, c2, ct_bytes.data(), 1, 1)) wct = c2; }
            { void* s2 = sh.take(R.sz(JV_SZ_WK_SIG)); std::vector<uint8_t> cb(R.jv_wk_get_marshalled_length(view, JV_OK_WK_SIG, wsig, 1)); R.jv_wk_marshal(view, JV_OK_WK_SIG, cb.data(), wsig, 1); if (R.jv_wk_unmarshal(view, JV_OK_WK_SIG, s2, cb.data(), 1, 1)) wsig = s2; }
            { void* m2 = sh.take(R.sz(JV_SZ_WK_MSK)); std::vector<uint8_t> cb(R.jv_wk_get_marshalled_length(view, JV_OK_WK_MSK, wmsk, 1)); R.jv_wk_marshal(view, JV_OK_WK_MSK, cb.data(), wmsk, 1); if (R.jv_wk_unmarshal(view, JV_OK_WK_MSK, m2, cb.data(), 1, 1)) wmsk = m2; }
            uint8_t lb[1024];
            { void* o2 = sh.take(R.sz(JV_SZ_LQ_PARAMS)); R.jv_lq_marshal(view, JV_OK_LQ_PARAMS, lb, lqparams, 1); if (R.jv_lq_unmarshal(view, JV_OK_LQ_PARAMS, o2, lb, 1, 1)) lqparams = o2; }
            { void* o2 = sh.take(R.sz(JV_SZ_LQ_ID)); R.jv_lq_marshal(view, JV_OK_LQ_ID, lb, lqid, 1); if (R.jv_lq_unmarshal(view, JV_OK_LQ_ID, o2, lb, 1, 1)) lqid = o2; }
            { void* o2 = sh.take(R.sz(JV_SZ_LQ_SK)); R.jv_lq_marshal(view, JV_OK_LQ_SK, lb, lqsk, 1); if (R.jv_lq_unmarshal(view, JV_OK_LQ_SK, o2, lb, 1, 1)) lqsk = o2; }
            { void* o2 = sh.take(R.sz(JV_SZ_LQ_CT)); R.jv_lq_marshal(view, JV_OK_LQ_CT, lb, lqct, 1); if (R.jv_lq_unmarshal(view, JV_OK_LQ_CT, o2, lb, 1, 1)) lqct = o2; }
            { void* o2 = sh.take(R.sz(JV_SZ_G2P)); void* q2 = sh.take(R.sz(JV_SZ_G2A)); R.jv_g2_marshal(view, lb, g2p[0], 1); if (R.jv_g2_unmarshal(view, q2, lb, 1, 1)) { R.jv_g2prepared_prepare(view, o2, q2); prep = o2; } }
        }
        trap_arena_seal(sh.base, sh.cap, "shared-input arena (objects several tasks read concurrently)");
    }

    // Per-task scratch: everything a script may write, allocated before the concurrent phase.
    struct Scratch {
        Buf gt1, g1, g2, g1a, g2a, key, keyb, key2, keyb2, ct, sig, pre, params, paramsh, ap, pp, lqct, lqsk, lqparams2, lqid2, lqmsk2, bytes; uint8_t sym[64]; Frv fr;
        Stream stream; HashStub hash;
        // fill: what the output objects hold before the first call. The solo and the concurrent phase use different fills, so M-solo also
        // says "results do not depend on what an output object held before".
        void init(Rep& R, int fill = 0) {
            gt1.alloc(576, fill); g1.alloc(144, fill); g2.alloc(288, fill); g1a.alloc(R.sz(JV_SZ_G1A), fill); key.alloc(R.sz(JV_SZ_WK_SK), fill); keyb.alloc(4 * R.sz(JV_SZ_WK_FREESLOT), fill);
            ct.alloc(R.sz(JV_SZ_WK_CT), fill); sig.alloc(R.sz(JV_SZ_WK_SIG), fill); params.alloc(R.sz(JV_SZ_WK_PARAMS), fill); paramsh.alloc(3 * R.sz(JV_SZ_G1), fill);
            ap.alloc(2 * std::max(R.jv_pair_size(0, 0), R.jv_pair_size(1, 0))); pp.alloc(std::max(R.jv_pair_size(0, 1), R.jv_pair_size(1, 1))); memset(ap.p, 0xEE, ap.n); memset(pp.p, 0xEE, pp.n); lqct.alloc(R.sz(JV_SZ_LQ_CT)); lqsk.alloc(R.sz(JV_SZ_LQ_SK)); lqparams2.alloc(R.sz(JV_SZ_LQ_PARAMS)); lqid2.alloc(R.sz(JV_SZ_LQ_ID)); lqmsk2.alloc(R.sz(JV_SZ_LQ_MSK));
            g2a.alloc(R.sz(JV_SZ_G2A)); key2.alloc(R.sz(JV_SZ_WK_SK)); keyb2.alloc(4 * R.sz(JV_SZ_WK_FREESLOT)); pre.alloc(R.sz(JV_SZ_WK_PRE)); bytes.alloc(8192);
            stream.reqs.reserve(4096);
        }
    };

    // Execute one script op; returns a digest of every output. No allocation between InLib guards.
    std::string exec(const Op& op, Scratch& s) {
        Rep& r = R; int k = (int) op.arg(0) % NKINDS; uint64_t a = (uint64_t) op.arg(1), b = (uint64_t) op.arg(2);
        uint8_t sc[32]; { Rng rr(a * 31 + b); rr.fill(sc, 32); }
        s.stream.reseed(mix3(a, b, 99)); s.stream.begin_call(4096); s.hash.calls.clear(); memset(s.bytes.p, 0, s.bytes.n);
        tl_stream = &s.stream; tl_hash = &s.hash;
        std::string d;
        jv_attr* at = sh_at[a & 3];   // shared, sealed attribute array (a caller's list object reused by several threads)
        switch (k) {
        case 0: { InLib g; r.jv_pairing(view, s.gt1, g1p[a % 3], g2p[b % 3]); } d = sha_hex(s.gt1.p, 576, 12); break;
        case 1: { InLib g; r.jv_prepared_pairing(view, s.gt1, g1p[a % 3], prep); } d = sha_hex(s.gt1.p, 576, 12); break;
        case 2: { r.jv_apair_set(view, s.ap, 0, g1p[a % 3], g2p[b % 3]); r.jv_apair_set(view, s.ap, 1, g1p[(a + 1) % 3], g2p[(b + 2) % 3]); r.jv_ppair_set(view, s.pp, 0, g1p[b % 3], prep);
                  { InLib g; r.jv_pairing_sum(view, s.gt1, s.ap, 2, s.pp, 1); } d = sha_hex(s.gt1.p, 576, 12); break; }
        case 3: { InLib g; r.jv_g1_multiply_affine(view, s.g1, g1p[a % 3], sc); } { uint8_t c[97]; r.jv_g1_canon(c, s.g1); d = sha_hex(c, 97, 12); } break;
        case 4: { InLib g; r.jv_g2_multiply_affine(view, s.g2, g2p[a % 3], sc); } { uint8_t c[193]; r.jv_g2_canon(c, s.g2); d = sha_hex(c, 193, 12); } break;
        case 5: { InLib g; r.jv_gt_multiply(view, s.gt1, gt, sc); } d = sha_hex(s.gt1.p, 576, 12); break;
        case 6: { InLib g; r.jv_g1_random(view, s.g1, jv_rand_cb); } { uint8_t c[97]; r.jv_g1_canon(c, s.g1); d = sha_hex(c, 97, 12); } break;
        case 7: { InLib g; r.jv_gt_multiply_random(view, s.gt1, s.fr.b, gt, jv_rand_cb); } d = sha_hex(s.gt1.p, 576, 12) + hex(s.fr.b, 8); break;
        case 8: { uint8_t h[48]; Rng rr(a); rr.fill(h, 48); { InLib g; r.jv_g1affine_from_hash(view, s.g1a, h); } uint8_t c[97]; r.jv_g1a_canon(c, s.g1a); d = sha_hex(c, 97, 12); break; }
        case 9: { r.jv_wk_sk_init(s.key, s.keyb); jv_attrs al = (b % 5 == 0) ? mk_attrs(sh_desc, 3) : mk_attrs(at, 1 + (a & 1)); { InLib g; r.jv_wk_keygen(view, s.key, wparams, wmsk, &al, jv_rand_cb); } d = key_digest(s.key); break; }
        case 10: { r.jv_wk_sk_init(s.key, s.keyb); jv_attrs al = mk_attrs(at, 2); { InLib g; if (b & 1) r.jv_wk_qualifykey(view, s.key, wparams, wkey, &al, jv_rand_cb); else r.jv_wk_nd_qualifykey(view, s.key, wparams, wkey, &al); } d = key_digest(s.key); break; }
        case 11: { jv_attrs al = mk_attrs(at, 1 + (a % 3)); { InLib g; r.jv_wk_encrypt(view, s.ct, gt, wparams, &al, jv_rand_cb); } std::vector<uint8_t> bb = marshal_digest(JV_OK_WK_CT, s.ct); d = sha_hex(bb.data(), bb.size(), 12); break; }
        case 12: { { InLib g; if (a & 1) r.jv_wk_decrypt(view, s.gt1, wct, wkey); else r.jv_wk_decrypt_master(view, s.gt1, wct, wmsk); } d = sha_hex(s.gt1.p, 576, 12); break; }
        case 13: { jv_attrs al = mk_attrs(at, 1); { InLib g; r.jv_wk_sign(view, s.sig, wparams, wkey, &al, sc, jv_rand_cb); } std::vector<uint8_t> bb = marshal_digest(JV_OK_WK_SIG, s.sig); d = sha_hex(bb.data(), bb.size(), 12); break; }
        case 14: { jv_attrs al = mk_attrs(at, 1); uint8_t m[32] = {7}; if (a & 1) m[0] = 8; int ok; { InLib g; ok = r.jv_wk_verify(view, wparams, &al, wsig, m); } d = ok ? "verify:1" : "verify:0"; break; }
        case 15: { { InLib g; r.jv_lq_encrypt(view, s.lqct, s.sym, 32, lqparams, lqid, jv_hash_cb, jv_rand_cb); } d = hex(s.sym, 32) + strf(":%zu", s.hash.calls.size()); break; }
        case 16: { { InLib g; r.jv_lq_decrypt(view, s.sym, 16, lqct, lqsk, lqid, jv_hash_cb); } d = hex(s.sym, 16); break; }
        case 17: { r.jv_wk_params_init(s.params, s.paramsh, 3); int ok; { InLib g; ok = r.jv_wk_unmarshal(view, JV_OK_WK_PARAMS, s.params, params_bytes.data(), 1, (int) (a & 1)); } std::vector<uint8_t> bb = marshal_digest(JV_OK_WK_PARAMS, s.params); d = strf("%d:", ok) + sha_hex(bb.data(), bb.size(), 12); break; }
        case 18: { jv_attrs al = (b & 2) ? mk_attrs(sh_desc, 3) : mk_attrs(at, 2); { InLib g; r.jv_wk_precompute(view, s.pre, wparams, &al); r.jv_wk_encrypt_precomputed(view, s.ct, gt, wparams, s.pre, jv_rand_cb); } std::vector<uint8_t> bb = marshal_digest(JV_OK_WK_CT, s.ct); d = sha_hex(bb.data(), bb.size(), 12); break; }
        case 19: { r.jv_wk_sk_init(s.key, s.keyb); jv_attrs al = mk_attrs(at, 1); { InLib g; r.jv_wk_precompute(view, s.pre, wparams, &al); r.jv_wk_resamplekey(view, s.key, wparams, s.pre, wkey, (int) (a & 1), jv_rand_cb); } d = key_digest(s.key); break; }
        case 20: { r.jv_wk_sk_init(s.key, s.keyb); jv_attrs f = mk_attrs(at, 2), t3 = mk_attrs(at, 3), t1 = mk_attrs(at, 1);
                   if (b % 3 == 0) {   // adjusting to the same list, on a key object that is not fresh: a valid header (the parent's), a stale count and whatever the slot array held
                       r.jv_wk_sk_stale_from(s.key, wkey, 2); jv_attrs e0 = mk_attrs(at, 0); { InLib g; r.jv_wk_adjust_nd(view, s.key, wkey, &e0, &e0); } d = key_digest(s.key); break; }
                   { InLib g; r.jv_wk_nd_qualifykey(view, s.key, wparams, wkey, &f); r.jv_wk_adjust_nd(view, s.key, wkey, &f, (a & 1) ? &t3 : &t1); } d = key_digest(s.key); break; }
        case 21: { jv_attrs al = mk_attrs(at, 1); int ok; { InLib g; r.jv_wk_precompute(view, s.pre, wparams, &al); r.jv_wk_sign_precomputed(view, s.sig, wparams, wkey, &al, s.pre, sc, jv_rand_cb); ok = r.jv_wk_verify_precomputed(view, wparams, s.pre, s.sig, sc); } std::vector<uint8_t> bb = marshal_digest(JV_OK_WK_SIG, s.sig); d = strf("%d:", ok) + sha_hex(bb.data(), bb.size(), 12); break; }
        case 22: { uint8_t h[96]; Rng rr(a); rr.fill(h, 96); { InLib g; r.jv_g2affine_from_hash(view, s.g2a, h); } uint8_t c[193]; r.jv_g2a_canon(c, s.g2a); d = sha_hex(c, 193, 12); break; }
        case 23: { int ok1, ok2; { InLib g; r.jv_g1_marshal(view, s.bytes.p, g1p[a % 3], (int) (b & 1)); ok1 = r.jv_g1_unmarshal(view, s.g1a, s.bytes.p, (int) (b & 1), 1); r.jv_g2_marshal(view, s.bytes.p + 256, g2p[a % 3], (int) (b & 1)); ok2 = r.jv_g2_unmarshal(view, s.g2a, s.bytes.p + 256, (int) (b & 1), 1); } uint8_t c[193]; r.jv_g2a_canon(c, s.g2a); d = strf("%d%d:", ok1, ok2) + sha_hex(s.bytes.p, 512, 12) + sha_hex(c, 193, 6); break; }
        case 24: { { InLib g; r.jv_gt_marshal(view, s.bytes.p, gt); r.jv_gt_unmarshal(view, s.gt1, s.bytes.p); r.jv_gt_double(view, s.gt1, s.gt1); r.jv_gt_negate(view, s.gt1, s.gt1); r.jv_gt_add(view, s.gt1, s.gt1, gt); } d = sha_hex(s.gt1.p, 576, 12); break; }
        case 25: { r.jv_wk_sk_init(s.key, s.keyb); int n, ok; { InLib g; n = r.jv_wk_set_length(view, JV_OK_WK_SK, s.key, key_bytes.data(), key_bytes.size(), 0); ok = r.jv_wk_unmarshal(view, JV_OK_WK_SK, s.key, key_bytes.data(), 0, (int) (a & 1)); } d = strf("%d:%d:", n, ok) + key_digest(s.key); break; }
        case 26: { int ok1, ok2; { InLib g; ok1 = r.jv_wk_unmarshal(view, JV_OK_WK_CT, s.ct, ct_bytes.data(), 1, 1); ok2 = r.jv_wk_unmarshal(view, JV_OK_WK_SIG, s.sig, sig_bytes.data(), 0, 1); } std::vector<uint8_t> bb = marshal_digest(JV_OK_WK_CT, s.ct), b2 = marshal_digest(JV_OK_WK_SIG, s.sig); d = strf("%d%d:", ok1, ok2) + sha_hex(bb.data(), bb.size(), 8) + sha_hex(b2.data(), b2.size(), 8); break; }
        case 27: { int ok1, ok2, ok3;
                   { InLib g; r.jv_lq_keygen(view, s.lqsk, lqmsk, lqid); r.jv_lq_marshal(view, JV_OK_LQ_SK, s.bytes.p, s.lqsk, 1);
                     r.jv_lq_marshal(view, JV_OK_LQ_PARAMS, s.bytes.p + 64, lqparams, (int) (a & 1)); r.jv_lq_marshal(view, JV_OK_LQ_ID, s.bytes.p + 512, lqid, (int) (b & 1)); r.jv_lq_marshal(view, JV_OK_LQ_CT, s.bytes.p + 640, lqct, 1); r.jv_lq_marshal(view, JV_OK_LQ_MSK, s.bytes.p + 800, lqmsk, 0);
                     ok1 = r.jv_lq_unmarshal(view, JV_OK_LQ_PARAMS, s.lqparams2, s.bytes.p + 64, (int) (a & 1), 1); ok2 = r.jv_lq_unmarshal(view, JV_OK_LQ_CT, s.lqct, s.bytes.p + 640, 1, 1); ok3 = r.jv_lq_unmarshal(view, JV_OK_LQ_SK, s.lqsk, s.bytes.p, 1, 1); }
                   d = strf("%d%d%d:", ok1, ok2, ok3) + sha_hex(s.bytes.p, 900, 12); break; }
        case 28: { uint8_t h[32]; Rng rr(a); rr.fill(h, 32); Frv z; { InLib g; r.jv_zp_random(view, s.fr.b, jv_rand_cb); r.jv_zp_from_hash(view, z.b, h); r.jv_wk_random_gt(view, s.gt1, jv_rand_cb); } d = hex(s.fr.b, 8) + hex(z.b, 8) + sha_hex(s.gt1.p, 576, 8); break; }
        case 30: { int f = 0; G1v x, y; G2v u, v2; GTv t2;
                   { InLib g; r.jv_g1_from_affine(view, x.b, g1p[a % 3]); r.jv_g1_add_mixed(view, y.b, x.b, g1p[b % 3]); r.jv_g1_add(view, x.b, x.b, y.b); r.jv_g1_double(view, x.b, x.b); r.jv_g1_negate(view, y.b, x.b); f += r.jv_g1_equal(view, x.b, y.b);
                     r.jv_g1affine_from_projective(view, s.g1a, x.b); r.jv_g1affine_negate(view, s.g1a, s.g1a); f += 2 * r.jv_g1affine_equal(view, s.g1a, g1p[0]);
                     r.jv_g2_from_affine(view, u.b, g2p[a % 3]); r.jv_g2_add_mixed(view, v2.b, u.b, g2p[b % 3]); r.jv_g2_add(view, u.b, u.b, v2.b); r.jv_g2_double(view, u.b, u.b); r.jv_g2_negate(view, v2.b, u.b); f += 4 * r.jv_g2_equal(view, u.b, v2.b);
                     r.jv_g2affine_from_projective(view, s.g2a, u.b); r.jv_g2affine_negate(view, s.g2a, s.g2a); f += 8 * r.jv_g2affine_equal(view, s.g2a, g2p[0]); f += 16 * r.jv_g2prepared_is_zero(view, prep);
                     r.jv_g1_multiply(view, x.b, x.b, sc); r.jv_g2_multiply(view, u.b, u.b, sc); r.jv_gt_add(view, t2.b, gt, gt); f += 32 * r.jv_gt_equal(view, t2.b, gt); }
                   uint8_t c1[97], c2[193]; r.jv_g1_canon(c1, x.b); r.jv_g2_canon(c2, u.b); d = strf("%d:", f) + sha_hex(c1, 97, 8) + sha_hex(c2, 193, 8); break; }
        case 31: { r.jv_wk_params_init(s.params, s.paramsh, 1); { InLib g; r.jv_wk_setup(view, s.params, s.key2 /* msk fits */, 1, (int) (a & 1), jv_rand_cb); } std::vector<uint8_t> bb = marshal_digest(JV_OK_WK_PARAMS, s.params); d = sha_hex(bb.data(), bb.size(), 12); break; }
        case 32: { Frv z; memcpy(z.b, sc, 32); int ok; size_t n1, n2, n3; int ul; uint8_t h48[48]; { Rng rr(a ^ 0x48); rr.fill(h48, 48); }
                   { InLib g; r.jv_wk_scalar_hash_reduce(view, z.b); r.jv_wk_random_zpstar(view, s.fr.b, jv_rand_cb); r.jv_wk_random_g1(view, s.g1, jv_rand_cb);
                     r.jv_wk_marshal(view, JV_OK_WK_MSK, s.bytes.p, wmsk, (int) (a & 1)); ok = r.jv_wk_unmarshal(view, JV_OK_WK_MSK, s.key2, s.bytes.p, (int) (a & 1), 1);
                     n1 = r.jv_wk_get_marshalled_length(view, JV_OK_WK_PARAMS, wparams, 0); n2 = r.jv_wk_marshalled_length(view, JV_OK_WK_SK, 3, 1, 1); n3 = r.jv_lq_get_marshalled_length(view, JV_OK_LQ_PARAMS, 1); ul = r.jv_wk_unmarshalled_length(view, JV_OK_WK_SK, key_bytes.data(), key_bytes.size(), 0);
                     r.jv_lq_compute_id_from_hash(view, s.lqid2, h48); r.jv_lq_setup(view, s.lqparams2, s.lqmsk2, jv_rand_cb); }
                   uint8_t c1[97]; r.jv_g1_canon(c1, s.g1); d = strf("%d:%zu:%zu:%zu:%d:", ok, n1, n2, n3, ul) + hex(z.b, 8) + hex(s.fr.b, 8) + sha_hex(c1, 97, 8) + sha_hex(s.lqparams2.p, 576, 8) + sha_hex(s.bytes.p, 96, 6); break; }
        case 33: { r.jv_wk_params_init(s.params, s.paramsh, 3); r.jv_wk_sk_init(s.key, s.keyb); int ok1, ok2, n;   // damaged parameters and key: every element after the bad one is still waiting when the verdict falls
                   { InLib g; ok1 = r.jv_wk_unmarshal(view, JV_OK_WK_PARAMS, s.params, params_bad.data(), 0, 1); n = r.jv_wk_set_length(view, JV_OK_WK_SK, s.key, key_bad.data(), key_bad.size(), 0); ok2 = r.jv_wk_unmarshal(view, JV_OK_WK_SK, s.key, key_bad.data(), 0, 1); }
                   d = strf("bad:%d:%d:%d", ok1, n, ok2); break; }
        case 34: { int o1, o2, o3, o4, o5;
                   { InLib g; o1 = r.jv_wk_unmarshal(view, JV_OK_WK_CT, s.ct, ct_bad.data(), 0, 1); o2 = r.jv_wk_unmarshal(view, JV_OK_WK_SIG, s.sig, sig_bad.data(), 0, 1); o3 = r.jv_g1_unmarshal(view, s.g1a, g1_bad.data(), 0, 1); o4 = r.jv_g2_unmarshal(view, s.g2a, g2_bad.data(), 0, 1); o5 = r.jv_lq_unmarshal(view, JV_OK_LQ_PARAMS, s.lqparams2, lqp_bad.data(), 0, 1); }
                   d = strf("bad:%d%d%d%d%d", o1, o2, o3, o4, o5); break; }
        case 35: { int grp = (int) (a & 1), w = (int) ((a >> 1) & 1); { InLib g; r.jv_wnaf_table_mul(grp + 1, 4 + w, grp ? s.g2.p : s.g1.p, wtab[grp][w], sc, (int) (b & 1)); } uint8_t c[193]; if (grp) { r.jv_g2_canon(c, s.g2); d = sha_hex(c, 193, 12); } else { r.jv_g1_canon(c, s.g1); d = sha_hex(c, 97, 12); } break; }
        case 36: { // serialising SHARED objects (several threads publish the same parameters / key / ciphertext): marshal is a read of its object - and of what the object points at
            bool comp = (a & 1) != 0; size_t n1, n2, n3; { InLib g; n1 = r.jv_wk_get_marshalled_length(view, JV_OK_WK_PARAMS, wparams, comp); n2 = r.jv_wk_get_marshalled_length(view, JV_OK_WK_SK, wkey, comp); n3 = r.jv_wk_get_marshalled_length(view, JV_OK_WK_CT, wct, comp);
              if (n1 + n2 + n3 + 512 <= s.bytes.n) { r.jv_wk_marshal(view, JV_OK_WK_PARAMS, s.bytes.p, wparams, comp); r.jv_wk_marshal(view, JV_OK_WK_SK, s.bytes.p + n1, wkey, comp); r.jv_wk_marshal(view, JV_OK_WK_CT, s.bytes.p + n1 + n2, wct, comp); r.jv_lq_marshal(view, JV_OK_LQ_PARAMS, s.bytes.p + n1 + n2 + n3, lqparams, comp); } }
            d = sha_hex(s.bytes.p, s.bytes.n, 12); break; }
        case 29: { { InLib g; r.jv_g2_random(view, s.g2, jv_rand_cb); } uint8_t c[193]; r.jv_g2_canon(c, s.g2); d = sha_hex(c, 193, 12); break; }
        }
        tl_stream = nullptr; tl_hash = nullptr;
        return d + strf("/%llu", (unsigned long long) s.stream.reqs.size());
    }
    std::vector<uint8_t> marshal_digest(int ok, void* obj) { size_t n = R.jv_wk_get_marshalled_length(view, ok, obj, 0); std::vector<uint8_t> b(n); { InLib g; R.jv_wk_marshal(view, ok, b.data(), obj, 0); } return b; }
    std::string key_digest(void* key) { std::vector<uint8_t> b = marshal_digest(JV_OK_WK_SK, key); return sha_hex(b.data(), b.size(), 12); }

    void run() {
        conc_protect_modules(*env.reps);
        env.check(g_tls_modules.empty(), "C20", "no-thread-local-storage", "replica(s) " + g_tls_modules + "have a PT_TLS segment: the library keeps thread-local state");
        env.count("probe:bytes_of_replica_image_write_protected", g_protected_bytes);
        build_shared();
        size_t ntasks = (size_t) plan.c("tasks", 3);
        std::vector<std::vector<Op>> scripts(ntasks);
        for (auto& op : plan.ops) if (op.kind == "T") scripts[(size_t) op.arg(3) % ntasks].push_back(op);
        // ---- M-solo: every script alone, one after another
        std::vector<TaskOut> solo(ntasks), conc(ntasks);
        { std::vector<Scratch> sc(ntasks); for (size_t t = 0; t < ntasks; t++) { sc[t].init(R, 0xEE); for (auto& op : scripts[t]) { uint64_t h0 = tl_hook_calls; solo[t].digests.push_back(exec(op, sc[t])); env.lib_calls++;
            // M-repeat: the same call again, on the same caller objects (records, scratch, outputs left as the first call left them), must give
            // the same result: "functions keep no mutable state between calls" includes state parked in caller-visible records
            { std::string again = exec(op, sc[t]); env.lib_calls++; if (again != solo[t].digests.back()) env.fail("C20", "M-repeat:same-call-same-result", strf("task %zu op kind %lld gives %s the first time and %s when the identical call is repeated on the same objects", t, (long long) op.arg(0) % NKINDS, solo[t].digests.back().c_str(), again.c_str())); } env.logf("SOLO t%zu k%lld fieldmults=%llu", t, (long long) op.arg(0) % NKINDS, (unsigned long long) (tl_hook_calls - h0)); } } }
        // ---- the same scripts as concurrent tasks under the seeded scheduler
        Scheduler sched; sched.p_switch_log2 = (uint32_t) plan.c("pswitch", 6);
        std::vector<Scratch> sc(ntasks); for (auto& s : sc) s.init(R, 0x11);
        std::vector<int> cur_kind(ntasks, -1); std::vector<std::pair<int, int>> ilv; ilv.reserve(1 << 16);
        sched.on_switch = [&](int from, int to) { if (ilv.size() < ilv.capacity()) ilv.push_back({cur_kind[(size_t) from], cur_kind[(size_t) to]}); };
        for (size_t t = 0; t < ntasks; t++) { conc[t].digests.reserve(scripts[t].size() + 1); sched.add([this, t, &scripts, &sc, &conc, &cur_kind] { int my_step = 0; tl_step_ptr = &my_step; for (auto& op : scripts[t]) { cur_kind[t] = (int) (op.arg(0) % NKINDS); conc[t].digests.push_back(exec(op, sc[t])); my_step++; } cur_kind[t] = -1; tl_step_ptr = nullptr; }); }
        for (auto& op : plan.ops) if (op.kind == "SCHED") sched.set_list(op.s);   // explicit (minimised) schedule instead of the PRNG
        sched.run((uint64_t) plan.c("sched_seed", 1));
        env.res.sched = sched.taken;
        env.count("probe:context_switches", sched.switches); env.count("probe:yield_points_passed", sched.global_yield);
        env.count("probe:yields_at_field_multiplication_hook", sched.hook_yields); env.count("probe:yields_at_random_or_hash_callback", sched.cb_yields);
        env.count("fault:preemption_inside_library_call", sched.switches);
        if (R.info.hook_enabled) env.check(sched.hook_yields > 0 || plan.ops.empty(), "C20", "harness:hook-live", "the H1 yield hook never fired: replicas were built without the guard?");
        // interleaving signature: which (from-op-kind, to-op-kind) pairs were interleaved
        for (size_t t = 0; t < ntasks; t++) for (size_t i = 0; i < scripts[t].size(); i++) {
            if (solo[t].digests[i] != conc[t].digests[i])
                env.fail("C20", "M-solo:concurrent-equals-sequential", strf("task %zu op %zu (kind %lld) produced %s when run concurrently with %zu other tasks (%llu context switches) but %s when run alone", t, i, (long long) scripts[t][i].arg(0) % NKINDS, conc[t].digests[i].c_str(), ntasks - 1, (unsigned long long) sched.switches, solo[t].digests[i].c_str()));
            env.logf("T%zu op%zu k%lld %s", t, i, (long long) scripts[t][i].arg(0) % NKINDS, solo[t].digests[i].c_str());
        }
        // distinct interleavings reached: (op kind that was preempted, op kind that ran instead; -1 = a task between/after its ops)
        { std::set<std::pair<int, int>> seen(ilv.begin(), ilv.end()); for (auto& pr : seen) env.add_case(strf("ilv %d>%d", pr.first, pr.second), true); env.count("probe:distinct_op_kind_interleavings_in_run", seen.size()); }
        std::string kinds; for (size_t t = 0; t < ntasks; t++) { for (auto& op : scripts[t]) kinds += strf("%lld,", (long long) op.arg(0) % NKINDS); kinds += "|"; }
        env.add_case(strf("conc %s ps%lld sw%llu", kinds.c_str(), (long long) plan.c("pswitch", 6), (unsigned long long) std::min<uint64_t>(sched.switches, 50)), sched.switches > 0);
        { std::string ty; for (auto t : sched.tasks) ty += std::to_string(t->yields) + ","; env.logf("CONC tasks=%zu switches=%llu yields=%llu per-task=%s", ntasks, (unsigned long long) sched.switches, (unsigned long long) sched.global_yield, ty.c_str()); }
    }
};

struct ConcScenario : Scenario {
    const char* name() const override { return "conc"; }
    Plan generate(uint64_t seed, const std::map<std::string, int64_t>&) override {
        Rng r(seed); Plan p; p.scenario = name();
        int tasks = r.range(2, 6); p.cfg["tasks"] = tasks; p.cfg["pswitch"] = r.chance(1, 5) ? 62 : r.range(2, 18);   // 62 = coarse schedule: preemption only at the random/hash callbacks
        p.cfg["sched_seed"] = (int64_t) (r.next() >> 1); p.cfg["setup_seed"] = (int64_t) (r.next() >> 1); p.cfg["reload"] = r.chance(1, 2);
        for (int t = 0; t < tasks; t++) { int n = r.range(2, 6); for (int i = 0; i < n; i++) p.ops.push_back({"T", {(int64_t) r.below(ConcRun::NKINDS), (int64_t) r.below(1000), (int64_t) r.below(1000), t}, {}}); }
        return p;
    }
    void run(const Plan& plan, RunEnv& env) override { ConcRun run(env, plan); run.run(); }
    std::vector<std::map<std::string, int64_t>> simplify_cfg(const Plan& p) override {
        std::vector<std::map<std::string, int64_t>> out;
        if (p.c("tasks") > 2) { auto c = p.cfg; c["tasks"] = p.c("tasks") - 1; out.push_back(c); }
        if (p.c("pswitch") < 12) { auto c = p.cfg; c["pswitch"] = p.c("pswitch") + 2; out.push_back(c); }
        if (p.c("pswitch") != 62) { auto c = p.cfg; c["pswitch"] = 62; out.push_back(c); }
        return out;
    }
};

static ScenarioReg reg_conc(new ConcScenario());

} // namespace jv
