// wire.hpp - M-wire: byte layout written down independently of marshal.cpp / curve.cpp,
// canonical-form predicate for point encodings, and the store/transport fault vocabulary (S3).
#pragma once
#include <string>
#include <vector>
#include "core.hpp"
#include "bn.hpp"

namespace jv {

enum { FL_COMPRESSED = 0x80, FL_INFINITY = 0x40, FL_GREATER = 0x20 };

static inline size_t enc_size(int g, bool compressed) { return (g == 1 ? 48 : 96) * (compressed ? 1 : 2); }

// Affine point as the model sees it: canonical integers, big-endian, in wire order
// (G1: x,y ; G2: x.c1,x.c0,y.c1,y.c0).
struct MPoint { int g = 1; bool inf = false; std::vector<uint8_t> xy; };   // xy: 96 or 192 bytes

// Replace the curve point in `aff` by [r] times itself, through the reference double-and-add: what is left has no component in the order-r subgroup.
static inline void cofactor_part(Rep& R, int g, Buf& aff) {
    uint8_t k[32]; K().r.to_le(k, 32);
    if (g == 1) { G1v p, t; R.jv_g1_from_affine(1, p.b, aff.p); R.jv_g1_mul_ref(t.b, p.b, k); R.jv_g1affine_from_projective(1, aff.p, t.b); }
    else { G2v p, t; R.jv_g2_from_affine(1, p.b, aff.p); R.jv_g2_mul_ref(t.b, p.b, k); R.jv_g2affine_from_projective(1, aff.p, t.b); }
}

// The stored (internal-form) bytes of the x coordinate of a curve point that lies entirely in the cofactor part: fed to a sampler as its next
// candidate, the candidate has a y, and the cofactor multiple of the resulting point is the identity (probability ~ cofactor/#E for an honest source).
static inline bool torsion_candidate_raw(Rep& R, int g, uint64_t seed, std::vector<uint8_t>& rawx) {
    Buf aff(R.sz(g == 1 ? JV_SZ_G1A : JV_SZ_G2A)); Rng r(seed ^ 0x7075);
    for (int t = 0; t < 200; t++) {
        uint8_t xle[96]; r.fill(xle, 96); xle[47] &= 0x0F; xle[95] &= 0x0F;
        int ok = g == 1 ? R.jv_g1a_from_x(aff, xle, 0) : R.jv_g2a_from_x(aff, xle, 0); if (!ok) continue;
        cofactor_part(R, g, aff);
        uint8_t c[193]; if (g == 1) R.jv_g1a_canon(c, aff.p); else R.jv_g2a_canon(c, aff.p); if (c[0] == 1) continue;   // (the point was in the subgroup: astronomically unlikely)
        rawx.assign(aff.p, aff.p + (g == 1 ? 48 : 96)); return true;
    }
    return false;
}
static inline MPoint mpoint_of_affine(Rep& R, int g, const void* affine) {
    MPoint m; m.g = g; uint8_t c[193];
    if (g == 1) { R.jv_g1a_canon(c, affine); m.inf = c[0] != 0; m.xy.resize(96); if (!m.inf) R.jv_g1a_xy(m.xy.data(), affine); }
    else { R.jv_g2a_canon(c, affine); m.inf = c[0] != 0; m.xy.resize(192); if (!m.inf) R.jv_g2a_xy(m.xy.data(), affine); }
    return m;
}

// "greater" in this library's format: y is compared with -y on the *Montgomery representatives*
// (y*2^384 mod q), the form Fq::compare sees; for Fq2 c1 is the more significant component.
// (This is a fact of the format the library defines for itself, written down here independently;
// it differs from comparing canonical integers.)
static inline Bn mont(const Bn& v) { static const Bn R384 = Bn::mod(Bn(1).shl(384), K().q); return Bn::mulmod(v, R384, K().q); }
static inline bool model_y_greater(const MPoint& m) {
    size_t cl = 48; size_t half = m.xy.size() / 2; const uint8_t* y = m.xy.data() + half;
    auto pos = [&](const uint8_t* v) { return mont(Bn::from_be(v, cl)); };
    auto neg = [&](const uint8_t* v) { Bn b = Bn::from_be(v, cl); return mont(b.is_zero() ? b : Bn::sub(K().q, b)); };
    if (m.g == 1) return Bn::cmp(pos(y), neg(y)) > 0;
    int c = Bn::cmp(pos(y), neg(y)); if (c != 0) return c > 0;
    return Bn::cmp(pos(y + cl), neg(y + cl)) > 0;
}

// The encoding the format prescribes for a point (independent of Encoding<>::encode).
static inline std::vector<uint8_t> model_encode(const MPoint& m, bool compressed) {
    std::vector<uint8_t> out(enc_size(m.g, compressed), 0);
    if (m.inf) { out[0] = FL_INFINITY | (compressed ? FL_COMPRESSED : 0); return out; }
    size_t half = m.xy.size() / 2;
    memcpy(out.data(), m.xy.data(), compressed ? half : m.xy.size());
    if (compressed) { out[0] |= FL_COMPRESSED; if (model_y_greater(m)) out[0] |= FL_GREATER; }
    return out;
}

// Independent parse of a byte string as a point encoding. Returns true iff the bytes are
// the canonical encoding (in the given form) of a point on the curve in the order-r
// subgroup; *why names the first violated clause otherwise. If the coordinates describe
// some point (canonical or not) it is returned in pt for the non-validating comparisons.
static inline bool model_canonical(Rep& R, int g, bool compressed, const uint8_t* b, std::string& why, Buf* pt_affine = nullptr) {
    size_t n = enc_size(g, compressed), cl = 48, ncoord = (g == 1 ? 1 : 2) * (compressed ? 1 : 2);
    bool cbit = (b[0] & FL_COMPRESSED) != 0;
    if (cbit != compressed) { why = "form bit does not match the expected form"; return false; }
    if (b[0] & FL_INFINITY) {
        if (b[0] & FL_GREATER) { why = "infinity with the greater flag"; return false; }
        if (b[0] & 0x1F) { why = "infinity with non-zero bits in byte 0"; return false; }
        for (size_t i = 1; i < n; i++) if (b[i]) { why = "infinity with non-zero tail"; return false; }
        if (pt_affine) { pt_affine->alloc(R.sz(g == 1 ? JV_SZ_G1A : JV_SZ_G2A)); R.jv_const_get(g == 1 ? JV_EK_G1A : JV_EK_G2A, 0, pt_affine->get()); }
        return true;
    }
    if (!compressed && (b[0] & FL_GREATER)) { why = "greater flag on an uncompressed encoding"; return false; }
    std::vector<uint8_t> coords(b, b + n); coords[0] &= 0x1F;
    for (size_t i = 0; i < ncoord; i++) {
        if (i > 0 && (coords[i * cl] & 0xE0)) { why = strf("flag bits set in the first byte of coordinate %zu", i); return false; }
        Bn v = Bn::from_be(coords.data() + i * cl, cl);
        if (v >= K().q) { why = strf("coordinate %zu is not reduced below q", i); return false; }
    }
    Buf aff(R.sz(g == 1 ? JV_SZ_G1A : JV_SZ_G2A));
    if (compressed) {
        uint8_t xle[96];
        if (g == 1) { for (int i = 0; i < 48; i++) xle[i] = coords[47 - (size_t) i]; }
        else { for (int i = 0; i < 48; i++) { xle[i] = coords[95 - (size_t) i]; xle[48 + i] = coords[47 - (size_t) i]; } }   // c0 LE then c1 LE
        int ok = g == 1 ? R.jv_g1a_from_x(aff, xle, 0) : R.jv_g2a_from_x(aff, xle, 0);
        if (!ok) { why = "x has no matching y"; return false; }
        // select y by the model's own comparison, not the library's: the flag set means "the greater of y, -y"
        MPoint m = mpoint_of_affine(R, g, aff);
        bool want = (b[0] & FL_GREATER) != 0;
        if (model_y_greater(m) != want) {
            size_t half = m.xy.size() / 2;
            for (size_t i = 0; i < half; i += 48) { Bn y = Bn::from_be(&m.xy[half + i], 48); if (!y.is_zero()) y = Bn::sub(K().q, y); y.to_be(&m.xy[half + i], 48); }
            if (g == 1) R.jv_g1a_set_xy(aff, m.xy.data(), 0); else R.jv_g2a_set_xy(aff, m.xy.data(), 0);
            if (model_y_greater(m) != want) { why = "y equals -y"; return false; }
        }
    } else {
        if (g == 1) R.jv_g1a_set_xy(aff, coords.data(), 0); else R.jv_g2a_set_xy(aff, coords.data(), 0);
    }
    int st = g == 1 ? R.jv_g1a_status(aff) : R.jv_g2a_status(aff);
    if (pt_affine) { pt_affine->alloc(aff.n); memcpy(pt_affine->p, aff.p, aff.n); }
    if (!(st & 2)) { why = "point is not on the curve"; return false; }
    if (!(st & 4)) { why = "point is not in the order-r subgroup"; return false; }
    return true;
}

// ---------------------------------------------------------------- generic byte faults
// token grammar (one token per fault):
//   flip:<off>:<bit>   set:<off>:<val>   trunc:<newlen>   ext:<n>:<fill>   zero   ff
//   flagset:<mask>   flagclr:<mask>   (byte 0 of the element at <base>, given by caller)
static inline bool apply_byte_fault(std::vector<uint8_t>& b, const std::string& tok, size_t base = 0) {
    std::vector<std::string> p; { std::string cur; for (char c : tok) { if (c == ':') { p.push_back(cur); cur.clear(); } else cur += c; } p.push_back(cur); }
    auto num = [&](size_t i) -> long long { return i < p.size() ? strtoll(p[i].c_str(), nullptr, 10) : 0; };
    if (p[0] == "flip") { if (b.empty()) return false; size_t off = (size_t) num(1) % b.size(); b[off] ^= (uint8_t) (1u << (num(2) & 7)); return true; }
    if (p[0] == "set") { if (b.empty()) return false; size_t off = (size_t) num(1) % b.size(); uint8_t v = (uint8_t) num(2); if (b[off] == v) v ^= 0x55; b[off] = v; return true; }
    if (p[0] == "trunc") { size_t n = (size_t) num(1); if (n >= b.size()) return false; b.resize(n); return true; }
    if (p[0] == "ext") { size_t n = (size_t) num(1); b.insert(b.end(), n, (uint8_t) num(2)); return n > 0; }
    if (p[0] == "zero") { std::fill(b.begin(), b.end(), 0); return true; }
    if (p[0] == "ff") { std::fill(b.begin(), b.end(), 0xFF); return true; }
    if (p[0] == "flagset") { if (base >= b.size()) return false; uint8_t o = b[base]; b[base] |= (uint8_t) num(1); return b[base] != o; }
    if (p[0] == "flagclr") { if (base >= b.size()) return false; uint8_t o = b[base]; b[base] &= (uint8_t) ~num(1); return b[base] != o; }
    return false;
}

// add q to the 48-byte big-endian coordinate at off (flag bits of that byte preserved); false if it does not fit in 381 bits
// Byzantine substitution "point of an isomorphic curve": (x, y) -> (u^2 x, u^3 y) lies on y^2 = x^3 + u^6 b, not on the curve,
// but the group-law formulas never use b, so it is still killed by r: only the curve-equation check can reject it.
// Uncompressed encodings only (the compressed form recomputes y from the curve equation).
static inline bool iso_scale_uncompressed(std::vector<uint8_t>& e, uint64_t u) {
    if (e.size() % 96 != 0 || e.empty() || (e[0] & 0xE0)) return false;
    size_t half = e.size() / 2; Bn U(u), u2 = Bn::mulmod(U, U, K().q), u3 = Bn::mulmod(u2, U, K().q);
    for (size_t i = 0; i < e.size(); i += 48) { Bn v = Bn::from_be(&e[i], 48); v = Bn::mulmod(v, i < half ? u2 : u3, K().q); v.to_be(&e[i], 48); }
    return true;
}
static inline bool add_q_at(std::vector<uint8_t>& b, size_t off) {
    if (off + 48 > b.size()) return false;
    uint8_t flags = b[off] & 0xE0; uint8_t tmp[48]; memcpy(tmp, &b[off], 48); tmp[0] &= 0x1F;
    Bn v = Bn::add(Bn::from_be(tmp, 48), K().q);
    if (v.bitlen() > 381) return false;
    v.to_be(tmp, 48); tmp[0] |= flags; memcpy(&b[off], tmp, 48); return true;
}

} // namespace jv
