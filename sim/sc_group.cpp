// sc_group.cpp - scenario "group": the group and target-group API functions that the schemes do not
// reach (add, add_mixed, negate, double, multiply, multiply_affine, equal, conversions, affine
// negate/equal, gt add/negate/double/equal, raw Fq12 inputs outside GT). It has no oracle of its
// own: it exists so that the cross-view (C19) and cross-replica (C03) comparisons of the engine see
// every exported function. Group-law correctness itself is C05/C06 (not applicable here).
#include "core.hpp"
#include "wkd_model.hpp"

namespace jv {

struct GroupScenario : Scenario {
    const char* name() const override { return "group"; }
    Plan generate(uint64_t seed, const std::map<std::string, int64_t>&) override {
        Rng r(seed); Plan p; p.scenario = name(); int n = r.range(6, 40);
        for (int i = 0; i < n; i++) { std::vector<uint8_t> k(32); r.fill(k.data(), 32); if (r.chance(1, 6)) memset(k.data(), r.chance(1, 2) ? 0 : 0xFF, 32); if (r.chance(1, 8)) { memset(k.data(), 0, 32); k[0] = (uint8_t) r.below(3); }
            p.ops.push_back({"G", {(int64_t) r.below(28), (int64_t) r.below(8), (int64_t) r.below(8)}, {hex(k.data(), 32)}}); }
        return p;
    }
    void run(const Plan& plan, RunEnv& env) override {
        Rep& R = *env.rep; int v = env.view; W w(env);
        std::vector<G1v> p1(8); std::vector<G2v> p2(8); std::vector<GTv> t(8);
        for (int i = 0; i < 8; i++) { R.jv_const_get(JV_EK_G1, i % 3 != 0, p1[(size_t) i].b); R.jv_const_get(JV_EK_G2, i % 3 != 1, p2[(size_t) i].b); R.jv_const_get(JV_EK_GT, i % 2, t[(size_t) i].b); }
        Buf a1(R.sz(JV_SZ_G1A)), a2(R.sz(JV_SZ_G2A)), b1(R.sz(JV_SZ_G1A)), b2(R.sz(JV_SZ_G2A));
        for (size_t oi = 0; oi < plan.ops.size(); oi++) {
            const Op& op = plan.ops[oi]; env.step = (int) oi; int k = (int) op.arg(0) % 28; size_t x = (size_t) op.arg(1) % 8, y = (size_t) op.arg(2) % 8;
            std::vector<uint8_t> sc = unhex(op.s.empty() ? "" : op.s[0]); sc.resize(32); env.lib_calls++;
            std::string out; int flag = -1;
            switch (k) {
            case 0: if (sc[0] & 1) R.jv_g1_add(v, p1[x].b, p1[x].b, p1[y].b); else { G1v tmp; memcpy(tmp.b, p1[x].b, sizeof(tmp.b)); R.jv_g1_add(v, p1[x].b, tmp.b, p1[y].b); } out = w.c1(p1[x]); break;
            case 1: R.jv_g1affine_from_projective(v, a1, p1[y].b); R.jv_g1_add_mixed(v, p1[x].b, p1[x].b, a1); out = w.c1(p1[x]); break;
            case 2: R.jv_g1_negate(v, p1[x].b, p1[y].b); out = w.c1(p1[x]); break;
            case 3: R.jv_g1_double(v, p1[x].b, p1[y].b); out = w.c1(p1[x]); break;
            case 4: R.jv_g1_multiply(v, p1[x].b, p1[y].b, sc.data()); out = w.c1(p1[x]); break;
            case 5: R.jv_g1affine_from_projective(v, a1, p1[y].b); R.jv_g1_multiply_affine(v, p1[x].b, a1, sc.data()); out = w.c1(p1[x]); break;
            case 6: flag = R.jv_g1_equal(v, p1[x].b, p1[y].b); break;
            case 7: R.jv_g1affine_from_projective(v, a1, p1[y].b); R.jv_g1affine_negate(v, b1, a1); flag = R.jv_g1affine_equal(v, a1, b1); R.jv_g1_from_affine(v, p1[x].b, b1); out = w.c1(p1[x]); break;
            case 8: R.jv_g2_add(v, p2[x].b, p2[x].b, p2[y].b); out = w.c2(p2[x]); break;
            case 9: R.jv_g2affine_from_projective(v, a2, p2[y].b); R.jv_g2_add_mixed(v, p2[x].b, p2[x].b, a2); out = w.c2(p2[x]); break;
            case 10: R.jv_g2_negate(v, p2[x].b, p2[y].b); out = w.c2(p2[x]); break;
            case 11: R.jv_g2_double(v, p2[x].b, p2[y].b); out = w.c2(p2[x]); break;
            case 12: R.jv_g2_multiply(v, p2[x].b, p2[y].b, sc.data()); out = w.c2(p2[x]); break;
            case 13: R.jv_g2affine_from_projective(v, a2, p2[y].b); R.jv_g2_multiply_affine(v, p2[x].b, a2, sc.data()); out = w.c2(p2[x]); break;
            case 14: flag = R.jv_g2_equal(v, p2[x].b, p2[y].b); break;
            case 15: R.jv_g2affine_from_projective(v, a2, p2[y].b); R.jv_g2affine_negate(v, b2, a2); flag = R.jv_g2affine_equal(v, a2, b2); R.jv_g2_from_affine(v, p2[x].b, b2); out = w.c2(p2[x]); break;
            case 16: if (sc[0] & 1) R.jv_gt_add(v, t[x].b, t[x].b, t[y].b); else R.jv_gt_add(v, t[x].b, t[y].b, t[x].b); out = w.ct(t[x]); break;   // result object = first or second operand (both when x == y)
            case 17: R.jv_gt_negate(v, t[x].b, t[y].b); out = w.ct(t[x]); break;
            case 18: R.jv_gt_double(v, t[x].b, t[y].b); out = w.ct(t[x]); break;
            case 19: flag = R.jv_gt_equal(v, t[x].b, t[y].b); break;
            case 20: R.jv_gt_multiply(v, t[x].b, t[y].b, sc.data()); out = w.ct(t[x]); break;
            case 21: { R.jv_g1affine_from_projective(v, a1, p1[x].b); R.jv_g2affine_from_projective(v, a2, p2[y].b); R.jv_pairing(v, t[x].b, a1, a2); out = w.ct(t[x]); break; }
            case 22: { // raw Fq12 outside GT: bytes -> unmarshal -> negate (must be the field inverse, not the conjugate) -> add
                uint8_t raw[576]; Rng rr(strhash(op.s.empty() ? "" : op.s[0].c_str())); rr.fill(raw, 576); for (int i = 0; i < 12; i++) raw[i * 48] &= 0x0F;
                R.jv_gt_unmarshal(v, t[x].b, raw); GTv inv, pr; R.jv_gt_negate(v, inv.b, t[x].b); R.jv_gt_add(v, pr.b, inv.b, t[x].b); uint8_t ob[576]; R.jv_gt_marshal(v, ob, pr.b); out = std::string((char*) ob, 576) + w.ct(inv);
                // the same raw object given for both operands (result elsewhere, then result in it too): still the general product, not the GT squaring
                { GTv sq; R.jv_gt_add(v, sq.b, t[x].b, t[x].b); out += w.ct(sq); R.jv_gt_add(v, t[x].b, t[x].b, t[x].b); out += w.ct(t[x]); env.count("probe:raw_fq12_outside_gt_same_object_for_both_operands"); }
                R.jv_const_get(JV_EK_GT, 1, t[x].b); break; }
            // 24..26: equality of two objects that are byte-identical except for one bit of one stored coordinate (a copy damaged in the store): the
            // byte position walks over the whole coordinate, so a comparison that looks at part of it only answers differently from one that looks at all
            case 24: { R.jv_g1affine_from_projective(v, a1, p1[y].b); memcpy(b1.p, a1.p, a1.n); uint8_t c[97]; R.jv_g1a_canon(c, a1); if (c[0] == 0) b1.p[(sc[0] % 2) * 48 + sc[1] % 47] ^= (uint8_t) (1u << (sc[2] & 7)); flag = R.jv_g1affine_equal(v, a1, b1); G1v q; memcpy(q.b, p1[y].b, sizeof(q.b)); q.b[(sc[3] % 2) * 48 + sc[4] % 47] ^= (uint8_t) (1u << (sc[5] & 7)); flag = flag * 2 + R.jv_g1_equal(v, p1[y].b, q.b); break; }
            case 25: { R.jv_g2affine_from_projective(v, a2, p2[y].b); memcpy(b2.p, a2.p, a2.n); uint8_t c[193]; R.jv_g2a_canon(c, a2); if (c[0] == 0) b2.p[(sc[0] % 4) * 48 + sc[1] % 47] ^= (uint8_t) (1u << (sc[2] & 7)); flag = R.jv_g2affine_equal(v, a2, b2); G2v q; memcpy(q.b, p2[y].b, sizeof(q.b)); q.b[(sc[3] % 4) * 48 + sc[4] % 47] ^= (uint8_t) (1u << (sc[5] & 7)); flag = flag * 2 + R.jv_g2_equal(v, p2[y].b, q.b); break; }
            case 26: { GTv q; memcpy(q.b, t[y].b, sizeof(q.b)); q.b[(sc[0] % 12) * 48 + sc[1] % 47] ^= (uint8_t) (1u << (sc[2] & 7)); flag = R.jv_gt_equal(v, t[y].b, q.b); break; }
            case 27: { // the C++-only wnaf.hpp API: a caller-built table multiplied by the op's scalar (all-zero, all-ones, 2^j-1 and random scalars: the recoding's
                       // add-back at the top of the working copy); window 4 or 5, either group, with or without explicit recoding
                int grp = (int) (x & 1) + 1, wn = 4 + (int) ((x >> 1) & 1); Buf tbl(R.jv_wnaf_table_bytes(grp, wn));
                if (grp == 1) { R.jv_g1affine_from_projective(v, a1, p1[y].b); R.jv_wnaf_table_build(1, wn, tbl, a1); G1v o; R.jv_wnaf_table_mul(1, wn, o.b, tbl, sc.data(), (int) (x >> 2) & 1); out = w.c1(o); }
                else { R.jv_g2affine_from_projective(v, a2, p2[y].b); R.jv_wnaf_table_build(2, wn, tbl, a2); G2v o; R.jv_wnaf_table_mul(2, wn, o.b, tbl, sc.data(), (int) (x >> 2) & 1); out = w.c2(o); }
                break; }
            case 23: { uint8_t ob[576]; R.jv_gt_marshal(v, ob, t[y].b); R.jv_gt_unmarshal(v, t[x].b, ob); out = w.ct(t[x]); break; }
            }
            env.logf("G %d %zu %zu flag=%d out=%s", k, x, y, flag, sha_hex(out.data(), out.size(), 10).c_str());
            env.add_case(strf("group %d f%d", k, flag), true);
        }
    }
};
static ScenarioReg reg_group(new GroupScenario());

} // namespace jv
