// bn.hpp - the models' own fixed-width big integers (independent of the library's BigInt).
#pragma once
#include <stdint.h>
#include <string.h>
#include <string>
#include "util.hpp"

namespace jv {

struct Bn {
    static const int W = 40;            // 1280 bits
    uint32_t w[W];
    Bn() { memset(w, 0, sizeof(w)); }
    explicit Bn(uint64_t v) { memset(w, 0, sizeof(w)); w[0] = (uint32_t) v; w[1] = (uint32_t) (v >> 32); }
    static Bn from_le(const uint8_t* b, size_t n) {
        Bn r; for (size_t i = 0; i < n && i < W * 4; i++) r.w[i / 4] |= (uint32_t) b[i] << (8 * (i % 4)); return r;
    }
    static Bn from_be(const uint8_t* b, size_t n) {
        Bn r; for (size_t i = 0; i < n && i < W * 4; i++) r.w[i / 4] |= (uint32_t) b[n - 1 - i] << (8 * (i % 4)); return r;
    }
    static Bn from_hex(const char* h) {         // big-endian hex
        std::vector<uint8_t> v = unhex((strlen(h) & 1) ? std::string("0") + h : std::string(h));
        return from_be(v.data(), v.size());
    }
    void to_le(uint8_t* b, size_t n) const { for (size_t i = 0; i < n; i++) b[i] = i < W * 4 ? (uint8_t) (w[i / 4] >> (8 * (i % 4))) : 0; }
    void to_be(uint8_t* b, size_t n) const { for (size_t i = 0; i < n; i++) b[n - 1 - i] = i < W * 4 ? (uint8_t) (w[i / 4] >> (8 * (i % 4))) : 0; }
    bool is_zero() const { for (int i = 0; i < W; i++) if (w[i]) return false; return true; }
    bool bit(int i) const { return (w[i / 32] >> (i % 32)) & 1; }
    int bitlen() const { for (int i = W * 32 - 1; i >= 0; i--) if (bit(i)) return i + 1; return 0; }
    uint64_t low64() const { return (uint64_t) w[0] | (uint64_t) w[1] << 32; }
    static int cmp(const Bn& a, const Bn& b) {
        for (int i = W - 1; i >= 0; i--) { if (a.w[i] < b.w[i]) return -1; if (a.w[i] > b.w[i]) return 1; }
        return 0;
    }
    bool operator==(const Bn& o) const { return cmp(*this, o) == 0; }
    bool operator!=(const Bn& o) const { return cmp(*this, o) != 0; }
    bool operator<(const Bn& o) const { return cmp(*this, o) < 0; }
    bool operator>=(const Bn& o) const { return cmp(*this, o) >= 0; }
    static Bn add(const Bn& a, const Bn& b) {
        Bn r; uint64_t c = 0;
        for (int i = 0; i < W; i++) { c += (uint64_t) a.w[i] + b.w[i]; r.w[i] = (uint32_t) c; c >>= 32; }
        return r;
    }
    static Bn sub(const Bn& a, const Bn& b) {    // a >= b assumed (else wraps mod 2^(32W))
        Bn r; int64_t c = 0;
        for (int i = 0; i < W; i++) { c += (int64_t) a.w[i] - b.w[i]; r.w[i] = (uint32_t) c; c >>= 32; }
        return r;
    }
    static Bn mul(const Bn& a, const Bn& b) {    // truncated to 32W bits
        Bn r;
        for (int i = 0; i < W; i++) {
            if (!a.w[i]) continue;
            uint64_t c = 0;
            for (int j = 0; i + j < W; j++) { c += (uint64_t) a.w[i] * b.w[j] + r.w[i + j]; r.w[i + j] = (uint32_t) c; c >>= 32; }
        }
        return r;
    }
    Bn shl1() const { Bn r; uint32_t c = 0; for (int i = 0; i < W; i++) { r.w[i] = w[i] << 1 | c; c = w[i] >> 31; } return r; }
    Bn shl(int n) const { Bn r = *this; for (int i = 0; i < n; i++) r = r.shl1(); return r; }
    Bn shr1() const { Bn r; uint32_t c = 0; for (int i = W - 1; i >= 0; i--) { r.w[i] = w[i] >> 1 | c << 31; c = w[i] & 1; } return r; }
    static Bn mod(const Bn& a, const Bn& m) {
        Bn r; int n = a.bitlen();
        for (int i = n - 1; i >= 0; i--) {
            r = r.shl1(); if (a.bit(i)) r.w[0] |= 1;
            if (cmp(r, m) >= 0) r = sub(r, m);
        }
        return r;
    }
    static void divmod(const Bn& a, const Bn& m, Bn& q, Bn& r) {
        q = Bn(); r = Bn(); int n = a.bitlen();
        for (int i = n - 1; i >= 0; i--) {
            r = r.shl1(); if (a.bit(i)) r.w[0] |= 1;
            if (cmp(r, m) >= 0) { r = sub(r, m); q.w[i / 32] |= 1u << (i % 32); }
        }
    }
    static Bn addmod(const Bn& a, const Bn& b, const Bn& m) { return mod(add(a, b), m); }
    static Bn submod(const Bn& a, const Bn& b, const Bn& m) { Bn x = mod(a, m), y = mod(b, m); return cmp(x, y) >= 0 ? sub(x, y) : sub(add(x, m), y); }
    static Bn mulmod(const Bn& a, const Bn& b, const Bn& m) { return mod(mul(mod(a, m), mod(b, m)), m); }
    static Bn powmod(const Bn& a, const Bn& e, const Bn& m) {
        Bn r(1), base = mod(a, m); int n = e.bitlen();
        for (int i = n - 1; i >= 0; i--) { r = mulmod(r, r, m); if (e.bit(i)) r = mulmod(r, base, m); }
        return r;
    }
    std::string hexstr(size_t nbytes = 32) const { uint8_t b[W * 4]; to_be(b, nbytes); return hex(b, nbytes); }
};

// curve constants, written down independently of the library headers
struct Consts {
    Bn r, q, absx, x2, x3, two256;
    Consts() {
        r = Bn::from_hex("73eda753299d7d483339d80809a1d80553bda402fffe5bfeffffffff00000001");
        q = Bn::from_hex("1a0111ea397fe69a4b1ba7b6434bacd764774b84f38512bf6730d2a0f6b0f6241eabfffeb153ffffb9feffffffffaaab");
        absx = Bn::from_hex("d201000000010000");
        x2 = Bn::mul(absx, absx); x3 = Bn::mul(x2, absx);
        two256 = Bn(1).shl(256);
    }
};
static inline const Consts& K() { static Consts k; return k; }

// Scalars k = c0 + c1*lambda (mod r) - lambda = -x^2 is the eigenvalue of the G1 endomorphism - whose two halves are built so that the
// interleaved two-dimensional ladder meets one of the exceptional cases of the addition formulas part-way: after the digits above bit t
// the accumulator is (+-d0*x^2 + (+-d1)*lambda)*P, the same point as (or the inverse of, or a neighbour of) the table entry +-d*lambda*P
// that is added next. d0, d1 odd and small (table entries), t = position of the collision, low parts below 2^t from eseed (0 = none).
static inline Bn glv_scalar(int d0, int d1, int t, int signs, uint64_t eseed) {
    const Bn& r = K().r; Bn lambda = Bn::sub(r, K().x2);
    uint64_t st = eseed * 0x9E3779B97F4A7C15ull + 777; auto rnd = [&]() { st ^= st << 13; st ^= st >> 7; st ^= st << 17; return st; };
    Bn c0 = Bn::mul(Bn((uint64_t) d0), K().x2).shl(t), c1 = Bn((uint64_t) d1).shl(t);
    if (eseed && t > 0) { Bn m = Bn(1).shl(t < 60 ? t : 60); c0 = Bn::add(c0, Bn::mod(Bn(rnd()), m)); c1 = Bn::add(c1, Bn::mod(Bn(rnd()), m)); }
    Bn a = Bn::mod(c0, r), b = Bn::mulmod(c1, lambda, r);
    if (signs & 1) a = Bn::submod(Bn(0), a, r); if (signs & 2) b = Bn::submod(Bn(0), b, r);
    return Bn::addmod(a, b, r);
}

// Digit tuples (c0..c3, each < |x|, value below r) for the random-exponent sampler whose recombination has a carry that must ripple
// through an all-ones 64-bit limb - the place where a hand-rolled multi-limb accumulation loses it:
//   k = 0: y - c0 has limb 1 = 2^64-1 and limb 0 + c0 wraps (any evaluation order passes a carry through limb 1 when c0 goes in)
//   k = 1: the Horner intermediate (c3|x| + c2)|x| has limb 1 = 2^64-1 and limb 0 + c1 wraps
static inline bool carry_tuple(int k, uint64_t seed, Bn d[4]) {
    const Bn& X = K().absx; Bn W64 = Bn(1).shl(64), W128 = Bn(1).shl(128), lo = Bn::sub(W128, W64); uint64_t st = seed * 0x9E3779B97F4A7C15ull + 12345;
    auto rnd = [&]() { st ^= st << 13; st ^= st >> 7; st ^= st << 17; return st; };
    for (int attempt = 0; attempt < 400; attempt++) {
        Bn c3 = Bn::mod(Bn(rnd()), Bn::sub(X, Bn(1))), c2 = Bn::mod(Bn(rnd()), X), c1, c0;
        Bn base = k == 0 ? Bn::mul(Bn::add(Bn::mul(c3, X), c2), Bn::mul(X, X)) : Bn::mul(c3, Bn::mul(X, X));   // what the solved digit is added to (times |x|)
        Bn t = Bn::mod(base, W128);
        Bn gap = Bn::cmp(lo, t) >= 0 ? Bn::sub(lo, t) : Bn::sub(Bn::add(lo, W128), t), q, rem; Bn::divmod(gap, X, q, rem);
        Bn sol = rem.is_zero() ? q : Bn::add(q, Bn(1)); if (!(sol < X)) continue;
        Bn sum = Bn::mod(Bn::add(t, Bn::mul(sol, X)), W128); if (sum < lo) continue;
        Bn limb0 = Bn::mod(sum, W64), need = Bn::sub(W64, limb0); if (limb0.is_zero() || !(need < X)) continue;
        Bn span = Bn::sub(X, need), wrapd = Bn::add(need, Bn::mod(Bn(rnd()), span));
        if (k == 0) { c1 = sol; c0 = wrapd; } else { c2 = sol; c1 = wrapd; c0 = Bn::mod(Bn(rnd()), X); }
        d[0] = c0; d[1] = c1; d[2] = c2; d[3] = c3; return true;
    }
    return false;
}

} // namespace jv
