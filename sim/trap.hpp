// trap.hpp - write trap and environment trap for C20 (see trap.cpp)
#pragma once
#include <stddef.h>
namespace jv {
extern thread_local int tl_in_lib;      // >0 while the thread is inside a library call (not inside a simulator callback)
size_t trap_protect_module(const char* path, const char* label, bool& has_tls);
void trap_add_range(void* lo, size_t len, const char* label, void* base);
void* trap_arena_alloc(size_t len);
void trap_arena_seal(void* p, size_t len, const char* label);
void trap_arena_free(void* p, size_t len);
void env_trap(const char* what);
struct InLib { InLib() { tl_in_lib++; } ~InLib() { tl_in_lib--; } };
struct OutOfLib { int saved; OutOfLib() : saved(tl_in_lib) { tl_in_lib = 0; } ~OutOfLib() { tl_in_lib = saved; } };
}
