// armsim.hpp - the two back ends of property C03 that no CPU in this sandbox can execute (AArch64 and ARMv6-M assembly)
// run here under a small interpreter of the assembly *source text* of /repo/src/core/arch/{aarch64,armv6_m}/*.s:
// macro expansion, the ~15 (AArch64) / ~20 (Thumb-1) instructions those files use, flags, a bounds-checked guest memory.
// The interpreted routines are wrapped as pseudo-replicas (all other entry points delegate to the portable replica with
// the same word size: B for AArch64, C for ARMv6-M), so the cross-replica comparison of scenario "prim" covers them.
#pragma once
#include <map>
#include <string>
#include <vector>
#include <stdint.h>

namespace jv {

struct ArmInsn {
    int op = 0;            // opcode enum (armsim.cpp)
    int rd = -1, rn = -1, rm = -1, ra = -1;
    int64_t imm = 0; bool has_imm = false;
    int mode = 0;          // addressing: 0 [rn,#imm], 1 pre-index [rn,#imm]!, 2 post-index [rn],#imm ; ldm/stm: 1 = writeback
    int cond = -1;
    int target = -1;       // branch target (instruction index) or -2 = external symbol
    uint32_t reglist = 0;
    std::string sym;       // external symbol for bl
    std::string text;      // expanded source text (for fault messages)
    std::string where;     // file:line of the outermost source line
};

struct ArmProg {
    bool is64 = false, ok = false; std::string err;
    std::vector<ArmInsn> code; std::map<std::string, int> labels;
    bool load(const std::vector<std::string>& files, bool is64_);
};

struct ArmMachine {
    const ArmProg* prog = nullptr;
    uint64_t x[34];        // AArch64: 0..30 = x0..x30, 31 = xzr (reads 0), 32 = sp. Thumb: 0..12, 13 = sp, 14 = lr, 15 unused
    bool N = false, Z = false, C = false, V = false;
    std::vector<uint8_t> mem;
    struct Region { uint64_t lo, hi; bool writable; };
    std::vector<Region> regions;
    bool mov_lowlow_sets_flags = true;    // Thumb divided syntax as GNU as assembles it: "mov rd, rm" with two low registers is ADDS rd, rm, #0
    std::string fault; uint64_t steps = 0;
    ArmMachine() : mem(1u << 20, 0) {}
    void reset();
    bool run(const std::string& entry);   // false: fault (message in .fault)
    bool rd_mem(uint64_t addr, size_t n, uint64_t& v); bool wr_mem(uint64_t addr, size_t n, uint64_t v);
};

struct Replicas;
// Adds the pseudo-replicas "ARM64/interp" and "ARMv6M/interp" to the set (needs B and C loaded). Returns a note for the evidence.
std::string arm_add_pseudo_replicas(Replicas& reps, const std::string& repo_dir);

} // namespace jv
