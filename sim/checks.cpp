// checks.cpp - which batches decide which property, per tier.
#include "engine.hpp"

namespace jv {

static const std::vector<std::string> ALL = {"A/bmi2-adx", "A/baseline", "As/static-bmi2", "B/portable64", "C/portable32"};
static const std::vector<std::string> ALLG = {"A/bmi2-adx", "A/baseline", "As/static-bmi2", "B/portable64", "C/portable32", "G/g++-asm"};
static const std::vector<std::string> ALLGARM = {"A/bmi2-adx", "A/baseline", "As/static-bmi2", "B/portable64", "C/portable32", "D/portable32-O0", "G/g++-asm", "ARM64/interp", "ARMv6M/interp"};
static const std::vector<std::string> DBG = {"D/portable32-O0"};
static const char* DBGNOTE = "the debug build (-O0, portable code, 32-bit words): nothing an optimiser's use of __restrict, of evaluation order or of dead stores could mask (50x slower)";
static const std::vector<std::string> FAST = {"A/bmi2-adx", "A/baseline", "As/static-bmi2", "B/portable64"};

static Batch mk(const std::string& sc, uint64_t runs, const std::vector<std::string>& reps, const std::string& mode = "single", std::map<std::string, int64_t> knobs = {}, const std::string& note = "") {
    Batch b; b.scenario = sc; b.runs = runs; b.replicas = reps; b.mode = mode; b.knobs = knobs; b.note = note; return b;
}

bool register_static_phases(const std::string& prop, CheckSpec& spec);   // c19/c20 extras (static.cpp)

bool build_check(const std::string& prop, const std::string& tier, CheckSpec& s, std::string& err) {
    bool q = tier == "quick";
    if (!q && tier != "thorough") { err = "tier must be quick or thorough"; return false; }
    s.prop = prop; s.tier = tier; s.level = "exploration";
    s.assumptions = {
        "field and group arithmetic of the replica under test is the trusted base of the models (properties C01, C02, C04, C05, C06 are not decided here); models use reference paths (double-and-add, generic square-and-multiply), not the fast paths",
        "x86-64 host only: AArch64 and ARMv6-M back ends are not executed",
        "a clean batch is evidence, not proof: schedules, streams, histories and faults are sampled from a seeded PRNG"
    };
    if (prop == "C09") {
        s.level = "fault_enumeration";
        s.rule = "case = (group, form, fault token(s), source element, model verdict) of one damaged-or-intact encoding delivered to both decoders; distinct by that tuple; non-trivial iff the fault actually changed the bytes delivered";
        s.batches.push_back(mk("enc", q ? 16 : 16, FAST, "single", {{"enumerate", 1}, {"allbits", q ? 0 : 1}}, "enumeration of the single-fault set: every named Byzantine substitution and flag manipulation, a flip in every byte (every bit in thorough), for identity/generator/multiples in both groups and both forms"));
        s.batches.push_back(mk("enc", q ? 1500 : 20000, ALL, "single", {}, "seeded sampling of elements, positions and double faults"));
        s.batches.push_back(mk("enc", q ? 40 : 1500, DBG, "single", {}, DBGNOTE));
        s.batches.push_back(mk("enc", q ? 60 : 2000, FAST, "duo", {}, "two senders/receivers as concurrent caller threads under the seeded scheduler"));
        return true;
    }
    if (prop == "C11" || prop == "C12" || prop == "C13" || prop == "C14") {
        int focus = atoi(prop.c_str() + 1);
        s.rule = "case = one model-state transition or judged interaction of a WKD-IBE history: (op, parent pattern -> child pattern over {free, fixed(0), fixed(v), hidden}^l, omit-all flag) for key-producing steps; (from list -> to list) for adjustments; (key pattern, should-open) for decryptions; (signer pattern, extension size, mutation) for signatures; distinct by that tuple; non-trivial iff the step changes model state or is a negative/tampered case";
        s.batches.push_back(mk("wkd", q ? 1400 : 60000, FAST, "single", {{"focus", focus}}, "histories biased towards the ops of this property; party runs on a seed-chosen replica through a seed-chosen view (C or C++ API)"));
        s.batches.push_back(mk("wkd", q ? 400 : 20000, FAST, "single", {{"focus", 0}}, "unbiased swarm mix"));
        s.batches.push_back(mk("wkd", q ? 48 : 3000, {"C/portable32"}, "single", {{"focus", focus}, {"maxops", 12}}, "32-bit-word replica (10x slower)"));
        s.batches.push_back(mk("wkd", q ? 32 : 2000, DBG, "single", {{"focus", focus}, {"maxops", 10}}, DBGNOTE));
        s.batches.push_back(mk("wkd", q ? 60 : 3000, FAST, "duo", {{"focus", focus}, {"maxops", 12}}, "two histories as concurrent caller threads under the seeded scheduler (preemption inside field multiplications)"));
        s.batches.push_back(mk("wkd", q ? 96 : 4000, FAST, "single", {{"focus", focus}, {"wide", 1}, {"maxops", 9}}, "wide systems: 12..80 slots, keys with long free-slot arrays, lists with slot indices beyond 64"));
        return true;
    }
    if (prop == "C15" || prop == "C17") {
        s.level = "fault_enumeration";
        s.rule = "case = one delivery of a marshalled object through the simulated store: (object kind, form, validating?, slot count, signature support, fault token(s) incl. target element and malformation kind, outcome); distinct by that tuple; non-trivial iff the delivered bytes differ from the bytes written";
        s.batches.push_back(mk("wkd", 80, {"A/bmi2-adx", "B/portable64"}, "single", {{"hopenum", 1}, {"stride", q ? 2 : 1}}, "enumeration: every embedded element x every invalid-encoding kind, truncation lengths (every length in thorough, every 5th in quick), extensions, byte flips, junk buffers; 5 object kinds x 2 forms x validating/not x 4 shapes"));
        s.batches.push_back(mk("wkd", 90, {"A/bmi2-adx", "B/portable64", "C/portable32"}, "single", {{"hopsizes", 1}}, "every slot count 0..89 once: parameters and keys with that many entries through the store in both forms"));
        s.batches.push_back(mk("wkd", q ? 1 : 4, {"A/bmi2-adx"}, "single", {{"hopsizes", 2}}, "objects past 2^16 marshalled bytes and 2^8 / 2^10 entries: 700 slots (quick), 257, 1300, 1024 (thorough)"));
        s.batches.push_back(mk("wkd", q ? 300 : 12000, FAST, "single", {{"focus", 15}}, "histories with marshalling hops and restarts in between the scheme operations"));
        s.batches.push_back(mk("wkd", q ? 32 : 2000, FAST, "single", {{"focus", 15}, {"wide", 1}, {"maxops", 9}}, "wide systems: parameters and keys with 12..80 slots through the store (length recovery from long buffers, free-slot arrays of dozens of entries)"));
        s.batches.push_back(mk("lq", 8, {"A/bmi2-adx", "B/portable64"}, "single", {{"hopenum", 1}}, "LQ-IBE objects: every embedded element x every invalid-encoding kind, both forms, validating and not"));
        s.batches.push_back(mk("lq", q ? 200 : 8000, FAST, "single", {}, "LQ-IBE histories with marshalling hops"));
        s.batches.push_back(mk("wkd", q ? 16 : 800, {"C/portable32"}, "single", {{"focus", 15}, {"maxops", 10}}, "32-bit words: WKD-IBE objects through the store"));
        s.batches.push_back(mk("lq", q ? 24 : 1000, {"C/portable32"}, "single", {}, "32-bit words: LQ-IBE objects through the store"));
        s.batches.push_back(mk("wkd", q ? 40 : 2000, FAST, "duo", {{"focus", 15}, {"maxops", 12}}, "marshalling hops by two concurrent caller threads"));
        s.batches.push_back(mk("lq", q ? 40 : 2000, FAST, "duo", {}, "LQ-IBE marshalling by two concurrent caller threads"));
        if (prop == "C17") {
            register_static_phases(prop, s);
            s.batches.push_back(mk("sample", q ? 100 : 4000, ALL, "single", {}, "samplers, hashing, target-group operations under ASan+UBSan"));
            s.batches.push_back(mk("wkd", q ? 200 : 8000, ALL, "single", {{"focus", 0}}, "every API call sequence of the WKD-IBE properties under ASan+UBSan"));
            s.batches.push_back(mk("enc", q ? 100 : 4000, ALL, "single", {}, "point decode of damaged bytes under ASan+UBSan"));
            s.batches.push_back(mk("pairs", q ? 120 : 4000, ALL, "single", {}, "pairing products over exact-size pair-record arrays and prepared points under ASan+UBSan"));
            s.batches.push_back(mk("group", q ? 60 : 3000, ALL, "single", {}, "group and target-group API under ASan+UBSan"));
            s.batches.push_back(mk("lq", q ? 60 : 3000, ALL, "single", {}, "LQ-IBE histories on every replica under ASan+UBSan"));
            // hand-written assembly is invisible to the sanitizers: the assembly replicas again, with every caller object flush against an inaccessible page
            static const std::vector<std::string> ASM3 = {"A/bmi2-adx", "A/baseline", "As/static-bmi2"};
            s.batches.push_back(mk("prim", q ? 150 : 6000, ASM3, "single", {{"guard", 3}, {"ops", 200}}, "field-arithmetic primitives on operands that end (odd runs) / begin (even runs) exactly at the edge of mapped memory"));
            s.batches.push_back(mk("group", q ? 45 : 2000, ASM3, "single", {{"guard", 3}}, "group and target-group API, caller objects at the edge of mapped memory"));
            s.batches.push_back(mk("pairs", q ? 45 : 2000, ASM3, "single", {{"guard", 3}}, "pairing products, pair records and points at the edge of mapped memory"));
            s.batches.push_back(mk("wkd", q ? 60 : 3000, ASM3, "single", {{"focus", 0}, {"guard", 3}, {"maxops", 14}}, "WKD-IBE histories, every scheme object at the edge of mapped memory"));
            s.batches.push_back(mk("wkd", q ? 45 : 2000, ASM3, "single", {{"focus", 15}, {"guard", 3}, {"maxops", 12}}, "marshalling hops, destination objects at the edge of mapped memory"));
            s.batches.push_back(mk("enc", q ? 45 : 2000, ASM3, "single", {{"guard", 3}}, "point decode of damaged bytes into objects at the edge of mapped memory"));
            s.batches.push_back(mk("lq", q ? 30 : 1500, ASM3, "single", {{"guard", 3}}, "LQ-IBE histories, objects at the edge of mapped memory"));
            s.batches.push_back(mk("sample", q ? 45 : 2000, ASM3, "single", {{"guard", 3}}, "samplers, hashing, target-group operations, objects at the edge of mapped memory"));
        }
        return true;
    }
    if (prop == "C10" || prop == "C07") {
        int focus = atoi(prop.c_str() + 1);
        s.rule = prop == "C10"
            ? "case = one sampler / hash call under a scripted-or-fair random stream: (entry point, number of rejected candidates (capped), skipped hash-to-curve candidates, boundary class of the input); distinct by that tuple; non-trivial iff at least one stream fault fired or at least one candidate was rejected/skipped"
            : "case = one target-group operation: (entry point, exponent class or number of rejections); non-trivial iff the exponent came from a faulted stream or is >= r";
        s.batches.push_back(mk("sample", q ? 3000 : 100000, FAST, "single", {{"focus", focus}}, "stream faults: rejection storms, boundary candidates (modulus-1, modulus, modulus+1, 0, masked-bit variants), digit = |x|-1 / |x|, tuples recombining to r-1, r, r+1, constant bytes, sign bytes"));
        s.batches.push_back(mk("sample", q ? 100 : 4000, {"C/portable32"}, "single", {{"focus", focus}}, "32-bit words: the exponent decomposition uses a hand-written long division there"));
        s.batches.push_back(mk("sample", q ? 48 : 2000, DBG, "single", {{"focus", focus}}, DBGNOTE));
        s.batches.push_back(mk("sample", q ? 100 : 3000, ALL, "crossrep", {{"focus", focus}}, "platform independence: identical results and identical stream consumption on every replica"));
        s.batches.push_back(mk("sample", q ? 100 : 4000, FAST, "duo", {{"focus", focus}}, "two callers as concurrent threads under the seeded scheduler"));
        return true;
    }
    if (prop == "C16") {
        s.rule = "case = one LQ-IBE interaction: (op, requested key length, master scalar >= r?, negative variant: other identity / other master / substituted ciphertext / damaged ciphertext read without validation / marshalling hop, stream faults attached); non-trivial iff a fault or negative variant is involved or the master scalar is unreduced";
        s.batches.push_back(mk("lq", q ? 3000 : 100000, FAST, "single", {}, "PKG, sender and receiver on a seed-chosen replica and view; master scalar delivered through the store with bit flips"));
        s.batches.push_back(mk("lq", q ? 64 : 3000, {"C/portable32"}, "single", {}, "32-bit words"));
        s.batches.push_back(mk("lq", q ? 32 : 1500, DBG, "single", {}, DBGNOTE));
        s.batches.push_back(mk("lq", q ? 64 : 3000, ALL, "crossrep", {}, "sender and receiver built with different back ends hash identical bytes"));
        s.batches.push_back(mk("lq", q ? 80 : 3000, FAST, "duo", {}, "two LQ-IBE systems as concurrent caller threads under the seeded scheduler"));
        return true;
    }
    if (prop == "C08") {
        s.rule = "case = one product or single pairing over reused pair records: the shape string of the call (a = affine pair, p = prepared pair, 0 suffix = pair with an identity member, in list order); non-trivial iff the list has more than one pair or contains an identity";
        s.batches.push_back(mk("pairs", q ? 2500 : 80000, FAST, "single", {}, "long-lived record arrays reused across products: slices, re-pointing, re-preparing, identities, shared prepared points"));
        s.batches.push_back(mk("pairs", q ? 60 : 3000, {"C/portable32"}, "single", {}, "32-bit words"));
        s.batches.push_back(mk("pairs", q ? 30 : 1500, DBG, "single", {}, DBGNOTE));
        s.batches.push_back(mk("pairs", q ? 100 : 4000, FAST, "duo", {}, "two callers computing products concurrently under the seeded scheduler"));
        return true;
    }
    if (prop == "C03") {
        s.rule = "case = (primitive op, output aliases first operand?, returned carry/borrow flag) for the register machine; for system histories the cases of the scenario run in lock-step; distinct by that tuple; every case executes on all five replicas with identical inputs and the logs (all written registers, flags, marshalled bytes, stream consumption) must be identical";
        s.batches.push_back(mk("prim", q ? 1200 : 30000, ALLGARM, "crossrep", {{"ops", q ? 400 : 600}}, "layer 1: register machine over BigInt<384/768/256/512> and FpBase<384/256> primitives with boundary pair constructors, results feeding later ops"));
        s.batches.push_back(mk("prim", q ? 400 : 15000, ALLGARM, "crossrep", {{"ops", q ? 300 : 500}, {"unreduced", 1}}, "layer 1 with operands that are not reduced below the modulus also fed to modular add / subtract / double / negate (the property quantifies over all 384-bit operand pairs)"));
        s.batches.push_back(mk("prim", q ? 300 : 12000, ALLGARM, "crossrep", {{"ops", q ? 300 : 500}, {"unreduced", 1}, {"entry", 1}}, "layer 1 with the x86-64 assembly routines entered directly with the carry and overflow flags set/clear in all four combinations and junk in the caller-saved registers (the ABI leaves them undefined at a call); callee-saved registers and the direction flag checked on return"));
        s.batches.push_back(mk("wkd", q ? 80 : 3000, ALLG, "crossrep", {{"maxops", 14}}, "layer 2: WKD-IBE histories in lock-step on all replicas, same random stream"));
        s.batches.push_back(mk("lq", q ? 60 : 2000, ALLG, "crossrep", {}, "layer 2: LQ-IBE histories"));
        s.batches.push_back(mk("sample", q ? 80 : 3000, ALLG, "crossrep", {}, "layer 2: samplers, hashing, GT exponentiation (rejection decisions must agree)"));
        s.batches.push_back(mk("enc", q ? 48 : 1200, ALLG, "crossrep", {}, "layer 2: encodings"));
        s.batches.push_back(mk("pairs", q ? 48 : 1200, ALLG, "crossrep", {}, "layer 2: pairing products"));
        s.batches.push_back(mk("group", q ? 80 : 3000, ALLG, "crossrep", {}, "layer 2: group and target-group API"));
        s.batches.push_back(mk("wkd", q ? 80 : 4000, {"A/bmi2-adx"}, "flipdispatch", {{"maxops", 14}}, "layer 3: the run-time dispatch pointers of replica A are swapped between the BMI2/ADX and baseline routines at seeded yield points inside operations; transcript must equal the undisturbed run"));
        s.batches.push_back(mk("pairs", q ? 60 : 2000, {"A/bmi2-adx"}, "flipdispatch", {}, "layer 3: dispatch flips inside Miller loops"));
        s.batches.push_back(mk("sample", q ? 60 : 2000, {"A/bmi2-adx"}, "flipdispatch", {}, "layer 3: dispatch flips inside samplers, hash-to-curve and target-group exponentiation"));
        s.batches.push_back(mk("lq", q ? 40 : 2000, {"A/bmi2-adx"}, "flipdispatch", {}, "layer 3: dispatch flips inside LQ-IBE operations"));
        s.batches.push_back(mk("enc", q ? 40 : 2000, {"A/bmi2-adx"}, "flipdispatch", {}, "layer 3: dispatch flips inside point decoding (square roots, subgroup checks)"));
        return true;
    }
    if (prop == "C19") {
        s.level = "other";
        s.rule = "two parts. (1) static ABI facts evaluated at run time in every replica (64- and 32-bit words, asm and portable): sizeof/alignof/offsetof of every struct in the C headers against the C++ type it is cast to, the prepared-point coefficient count, every exported constant against the C++ value (and a few against values written down in the simulator). (2) view refinement by simulation: every history of the other scenarios is executed once through the C API and once through the C++ API on the same replica with the same random stream; the event logs (all outputs, return values, stream consumption) must be identical. case = ABI row / constant per replica, plus the cases of the histories; non-trivial as in those scenarios";
        register_static_phases(prop, s);
        s.batches.push_back(mk("wkd", q ? 300 : 12000, FAST, "crossview", {}, "WKD-IBE histories, C view vs C++ view"));
        s.batches.push_back(mk("wkd", q ? 200 : 8000, FAST, "crossview", {{"focus", 14}}, "adjustment-heavy histories (the wrappers with two list arguments), C view vs C++ view"));
        s.batches.push_back(mk("wkd", 80, {"A/bmi2-adx", "B/portable64"}, "crossview", {{"hopenum", 1}, {"stride", q ? 11 : 3}}, "every marshal/unmarshal/length wrapper: object kind x form x validating? x invalid element kinds, C view vs C++ view"));
        s.batches.push_back(mk("lq", 4, {"A/bmi2-adx", "B/portable64"}, "crossview", {{"hopenum", 1}}, "LQ-IBE marshal/unmarshal wrappers"));
        s.batches.push_back(mk("lq", q ? 200 : 8000, FAST, "crossview", {}, "LQ-IBE histories"));
        s.batches.push_back(mk("sample", q ? 200 : 8000, FAST, "crossview", {}, "samplers, hashing, GT operations"));
        s.batches.push_back(mk("enc", q ? 120 : 4000, FAST, "crossview", {}, "encodings"));
        s.batches.push_back(mk("pairs", q ? 120 : 4000, FAST, "crossview", {}, "pairing products"));
        s.batches.push_back(mk("wkd", q ? 10 : 400, {"C/portable32"}, "crossview", {{"maxops", 10}}, "32-bit words"));
        s.batches.push_back(mk("wkd", q ? 16 : 600, FAST, "crossview", {{"wide", 1}, {"maxops", 8}}, "wide systems (12..80 slots)"));
        s.batches.push_back(mk("sample", q ? 40 : 1500, {"C/portable32"}, "crossview", {}, "32-bit words: samplers, hashing, GT operations"));
        s.batches.push_back(mk("lq", q ? 16 : 600, {"C/portable32"}, "crossview", {}, "32-bit words: LQ-IBE"));
        s.batches.push_back(mk("enc", q ? 24 : 800, {"C/portable32"}, "crossview", {}, "32-bit words: encodings"));
        s.batches.push_back(mk("pairs", q ? 12 : 400, {"C/portable32"}, "crossview", {}, "32-bit words: pairing products"));
        s.batches.push_back(mk("group", q ? 200 : 8000, ALL, "crossview", {}, "group and target-group API functions not used by the schemes (add, add_mixed, negate, double, multiply, equal, conversions, gt_add/negate/double/equal) incl. raw Fq12 inputs outside GT"));
        return true;
    }
    if (prop == "C20") {
        s.rule = "case = one concurrent execution: (multiset of op kinds per task, switch-probability knob, number of context switches capped at 50); distinct by that tuple; non-trivial iff at least one preemption happened inside a library call; and one case per distinct interleaving reached: (kind of the operation that was preempted, kind of the operation that ran instead), 33 operation kinds covering every exported function. Plus the static link-surface audit rows (one per undefined / writable symbol per build configuration)";
        register_static_phases(prop, s);
        s.batches.push_back(mk("conc", q ? 400 : 40000, FAST, "single", {}, "2-6 real threads under the serialising seeded scheduler; write trap on the replica image and the shared-input arena; libc traps"));
        s.batches.push_back(mk("conc", q ? 12 : 600, {"C/portable32"}, "single", {}, "32-bit words"));
        s.batches.push_back(mk("conc", q ? 8 : 400, DBG, "single", {}, DBGNOTE));
        s.batches.push_back(mk("conc", q ? 40 : 2000, {"G/g++-asm"}, "single", {}, "the same sources built with g++"));
        s.batches.push_back(mk("wkd", q ? 160 : 8000, FAST, "single", {{"focus", 0}}, "WKD-IBE histories with every attribute list in the library's own format in caller memory: a list that differs after the call from what the caller built is state kept in (or written through) a const input"));
        s.batches.push_back(mk("wkd", q ? 40 : 2000, FAST, "duo", {{"focus", 0}, {"maxops", 12}}, "the same as two concurrent caller threads (M-solo: each history's event log equals its log when run alone)"));
        s.batches.push_back(mk("pairs", q ? 150 : 6000, FAST, "single", {}, "pairing products over long-lived caller records: after every call the records' input members still point where the caller pointed them (state parked in caller-visible records is state between calls)"));
        s.batches.push_back(mk("prim", q ? 60 : 3000, {"A/bmi2-adx", "A/baseline", "As/static-bmi2", "G/g++-asm"}, "single", {{"ops", 200}, {"entry", 1}}, "the same on the assembly replicas with the routines entered directly: the repeat call arrives with other CF/OF and scratch-register contents than the first"));
        s.batches.push_back(mk("prim", q ? 120 : 6000, ALLG, "single", {{"ops", 200}}, "field-arithmetic primitives, every call repeated into a second output object that held other bytes: the result is a function of the operands alone (operands driven into the compare-and-subtract tails, where a path that stores nothing would hand back stale memory)"));
        return true;
    }
    err = "no check registered for property " + prop;
    return false;
}

} // namespace jv
