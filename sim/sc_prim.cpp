// sc_prim.cpp - scenario "prim": a register machine over the multi-precision and modular
// primitives. Every op is applied with identical inputs on each replica (x86-64 asm with BMI2/ADX
// dispatch, with baseline dispatch, static BMI2 build, portable 64-bit words, portable 32-bit
// words); the event log carries every written register and returned flag, so the cross-replica
// fingerprint comparison of the engine decides C03 layer 1. Results feed later ops.
// In plain words: this layer is differential execution on generated operands; the simulator
// contributes the replica framing, the dispatch seam and shrinking.
#include "core.hpp"
#include "bn.hpp"

namespace jv {

const std::string& arm_last_fault();

enum { BK_B384 = 0, BK_F384, BK_W768, BK_T768, BK_B256, BK_F256, BK_W512, BK_T512, BK_COUNT };
static const size_t bank_bytes[BK_COUNT] = {48, 48, 96, 96, 32, 32, 64, 64};
static const size_t bank_regs[BK_COUNT] = {8, 8, 4, 4, 8, 8, 4, 4};

struct PrimRun {
    RunEnv& env; Rep& R; const Plan& plan;
    std::vector<Buf> regs[BK_COUNT];
    PrimRun(RunEnv& e, const Plan& p) : env(e), R(*e.rep), plan(p) {
        for (int b = 0; b < BK_COUNT; b++) for (size_t i = 0; i < bank_regs[b]; i++) { regs[b].emplace_back(bank_bytes[b]); regs[b].back().p[0] = (uint8_t) (i + 1); }
    }
    void set(int bank, size_t reg, const Bn& v) { v.to_le(regs[bank][reg % bank_regs[bank]].p, bank_bytes[bank]); }
    Bn get(int bank, size_t reg) { return Bn::from_le(regs[bank][reg % bank_regs[bank]].p, bank_bytes[bank]); }

    // constructors: LOAD bank reg kind | hex
    void op_load(const Op& op) {
        int bank = (int) op.arg(0) % BK_COUNT; size_t reg = (size_t) op.arg(1); int kind = (int) op.arg(2);
        bool is256 = bank >= BK_B256; const Bn& mod = is256 ? K().r : K().q; int bits = is256 ? 256 : 384;
        std::vector<uint8_t> h = unhex(op.s.empty() ? "" : op.s[0]); h.resize(bank_bytes[bank]);
        Bn v = Bn::from_le(h.data(), h.size()), full = Bn::sub(Bn(1).shl(bits), Bn(1));
        switch (kind % 16) {
        case 0: break;                                            // random
        case 1: v = mod; break; case 2: v = Bn::sub(mod, Bn(1)); break; case 3: v = Bn::add(mod, Bn(1)); break;
        case 4: v = Bn(0); break; case 5: v = Bn(1); break; case 6: v = full; break;
        case 7: { Bn top = Bn::sub(mod, Bn::mod(mod, Bn(1).shl(bits - 64))); v = Bn::add(top, Bn::mod(v, Bn(1).shl(bits - 64))); break; }   // top word of the modulus, random lower words
        case 8: {   // extreme words: each 64-bit word (or, h[1] odd, each 32-bit word) is 0, all ones, 0x7ff..f, 0x800..0 or 1 - cross products and their doubled sums
                    // then land on all-ones / exact-wrap double words, where a carry test written against the wrong operand goes wrong
            size_t W = (h[1] & 1) ? 4 : 8; uint8_t sel[12]; for (size_t i = 0; i < 12; i++) sel[i] = h[2 + i];
            for (size_t i = 0, wi = 0; i + W <= h.size(); i += W, wi++) { int pat = sel[wi % 12] % 5; memset(&h[i], pat == 1 || pat == 2 ? 0xFF : 0, W); if (pat == 2) h[i + W - 1] = 0x7F; else if (pat == 3) h[i + W - 1] = 0x80; else if (pat == 4) h[i] = 1; }
            v = Bn::from_le(h.data(), h.size()); break; }
        case 9: { std::vector<uint8_t> z(h.size(), 0); for (size_t i = 0; i < h.size(); i += 8) z[i + (h[i] & 7)] = (uint8_t) (1u << (h[i + 1] & 7)); v = Bn::from_le(z.data(), z.size()); break; }   // single-bit words
        case 10: v = Bn::from_le(h.data(), h.size()).shr1(); break;
        case 11: { for (size_t i = 0; i < h.size(); i += 4) if (h[i] & 1) memset(&h[i], 0xFF, 4); v = Bn::from_le(h.data(), h.size()); break; }   // 32-bit word boundary patterns
        case 12: v = Bn::sub(mod, Bn(1)).shr1(); if (h[0] & 1) v = Bn::add(v, Bn(1)); break;                                                                   // (modulus-1)/2, (modulus+1)/2: doubling lands on modulus-1 / modulus+1
        case 13: { Bn top = Bn::sub(mod, Bn::mod(mod, Bn(1).shl(bits - 64))); v = Bn::add(top, Bn::mod(v, Bn(1).shl(bits - 64))).shr1(); break; }               // half of (top word of the modulus, random lower words): its double shares the top word with the modulus
        case 14: { Bn top = Bn::sub(mod, Bn::mod(mod, Bn(1).shl(bits - 32))); v = Bn::add(top, Bn::mod(v, Bn(1).shl(bits - 32))).shr1(); break; }               // the same at 32-bit granularity
        case 15: {
            // partial-product boundaries: two words x, y of the operand (any two positions, word size 64 or 32) are chosen so that the high word of
            // x*y is exactly H in {2^(W-1)-1, 2^(W-1), 2^W-2, 2^(W/2)-1, 1} - where a row of a multiplication or squaring routine ends on a word
            // that a pending carry turns over (or whose top bit a signed interpretation flips). y = floor(((H+1)*2^W - 1) / x), x > H.
            int W = (h[2] & 1) ? 32 : 64, n = bits / W; uint64_t ones = W == 64 ? ~0ull : 0xFFFFFFFFull;
            if (bank == BK_F384 || bank == BK_F256) {   // field elements: keep the value below the modulus (top word below the modulus' top word, the two chosen words elsewhere)
                n -= 1; size_t nb = (size_t) bits / 8; uint64_t tw = 0; memcpy(&tw, &h[nb - 8], 8); uint64_t mt = mod.shl(0).low64(); { Bn t = mod; for (int k = 0; k < bits - 64; k++) t = t.shr1(); mt = t.low64(); }
                tw %= mt; memcpy(&h[nb - 8], &tw, 8); if (W == 32 && n * 4 + 4 > (int) nb - 8) n -= 1;
            }
            for (int pr = 0; pr < 1 + (h[3] & 1); pr++) {
                int i = h[4 + 3 * (size_t) pr] % n, j = h[5 + 3 * (size_t) pr] % n; if (i == j) j = (i + 1) % n;
                uint64_t Hs[5] = {(1ull << (W - 1)) - 1, 1ull << (W - 1), ones - 1, (1ull << (W / 2)) - 1, 1}; uint64_t H = Hs[h[6 + 3 * (size_t) pr] % 5];
                uint64_t x = 0; memcpy(&x, &h[(size_t) i * (size_t) (W / 8)], (size_t) (W / 8)); if (x <= H) x = H + 1 + x % (ones - H);
                unsigned __int128 num = (((unsigned __int128) (H + 1)) << W) - 1; uint64_t y = (uint64_t) (num / x);
                memcpy(&h[(size_t) i * (size_t) (W / 8)], &x, (size_t) (W / 8)); memcpy(&h[(size_t) j * (size_t) (W / 8)], &y, (size_t) (W / 8));
            }
            v = Bn::from_le(h.data(), h.size()); break; }
        }
        if ((kind % 16 == 13 || kind % 16 == 14) && (h[7] & 1) && (bank == BK_B384 || bank == BK_B256)) v = Bn::add(v, Bn(1).shl(bits - 1));   // the same with the top bit set (not reduced): the double shifts a bit out AND shares the top word with the modulus
        if (bank == BK_F384 || bank == BK_F256) v = Bn::mod(v, mod);
        if (bank == BK_T768 || bank == BK_T512) {      // reduction inputs below modulus * 2^bits
            Bn lim = Bn::mul(mod, Bn(1).shl(bits)); Bn wide = Bn::from_le(h.data(), h.size());
            if (kind % 3 == 0) v = Bn::sub(lim, Bn(1 + (h[0] & 3))); else if (kind % 3 == 1) v = Bn::mod(wide, lim); else v = Bn::mul(Bn::sub(mod, Bn(1 + (h[1] & 1))), Bn::sub(mod, Bn(1 + (h[2] & 1))));
        }
        set(bank, reg, v);
        env.logf("LOAD b%d r%zu k%d %s", bank, reg % bank_regs[bank], kind % 16, regs[bank][reg % bank_regs[bank]].hexs().c_str());
    }
    // pair constructors: PAIR wide ra rb kind : make a + b land on a chosen boundary (both registers in the field bank)
    void op_pair(const Op& op) {
        bool is256 = op.arg(0) != 0; int fb = is256 ? BK_F256 : BK_F384; const Bn& mod = is256 ? K().r : K().q; int bits = is256 ? 256 : 384;
        size_t ra = (size_t) op.arg(1), rb = (size_t) op.arg(2); int kind = (int) op.arg(3) % 8;
        std::vector<uint8_t> h = unhex(op.s.empty() ? "" : op.s[0]); h.resize(bank_bytes[fb]);
        Bn a = Bn::mod(Bn::from_le(h.data(), h.size()), mod), target;
        switch (kind) {
        case 0: target = Bn::sub(mod, Bn(1)); break; case 1: target = mod; break; case 2: target = Bn::add(mod, Bn(1)); break;
        case 3: target = Bn::sub(Bn(1).shl(bits), Bn(1)); break; case 4: target = Bn(1).shl(bits); break; case 5: target = Bn::add(Bn(1).shl(bits), Bn(1)); break;
        case 6: target = Bn::sub(Bn::add(mod, mod), Bn(2)); a = Bn::sub(mod, Bn(1)); break;
        default: target = Bn::add(Bn::sub(mod, Bn::mod(mod, Bn(1).shl(bits - 64))), Bn::mod(Bn::from_le(h.data(), 8), Bn(1).shl(60))); break;   // sum with the modulus' top word
        }
        Bn b;
        if (target >= a && Bn::sub(target, a) < mod) b = Bn::sub(target, a);
        else { a = Bn::sub(mod, Bn(1)); b = Bn::sub(target, a) < mod ? Bn::sub(target, a) : Bn::sub(mod, Bn(1)); }
        if (b >= mod) b = Bn::sub(mod, Bn(1));
        set(fb, ra, a); set(fb, rb == ra ? ra + 1 : rb, b);
        env.count(strf("probe:pair_constructor_%s_%d", is256 ? "256" : "384", kind));
        env.logf("PAIR w%d k%d", is256, kind);
    }
    // TAIL wide tr ra level rel sq | hex : operands that drive the compare-and-subtract tail of Montgomery reduction / multiplication /
    // squaring to a chosen depth. v = the value before the final conditional subtraction; its top `level` 32-bit words equal the
    // modulus', the next word is smaller / equal / larger (rel), the rest is random. For reduction: T = v*R - m*mod for a random valid
    // m (then the routine's own quotient is m and its pre-subtraction value is exactly v; every non-zero multiple of the modulus
    // gives v = modulus). For multiplication: a = 2^k*d, b = v*R/a mod modulus. For squaring: a square root of v*R when there is one.
    static Bn div_small(Bn x, unsigned d, const Bn& mod) {   // x/d mod modulus, d small and odd... or any d coprime to the modulus
        for (unsigned t = 0; t < d; t++) { uint64_t rem = 0; for (int i = Bn::W - 1; i >= 0; i--) rem = ((rem << 32) | x.w[i]) % d; if (rem == 0) break; x = Bn::add(x, mod); }
        Bn q; uint64_t rem = 0; for (int i = Bn::W - 1; i >= 0; i--) { uint64_t cur = (rem << 32) | x.w[i]; q.w[i] = (uint32_t) (cur / d); rem = cur % d; }
        return q;
    }
    // (computed once, in the generator: the plan carries the resulting operands as hex tokens "T:<hex>" "A:<hex>" "B:<hex>" "S:<hex>")
    static std::vector<std::string> tail_tokens(bool is256, int level_in, int rel_in, bool want_sqrt_in, const std::vector<uint8_t>& h_in, std::string& vhex) {
        const Bn& mod = is256 ? K().r : K().q; int bits = is256 ? 256 : 384, nw = bits / 32; size_t nb = (size_t) bits / 8;
        int level = level_in % (nw + 1), rel = rel_in % 3 - 1; bool want_sqrt = want_sqrt_in && !is256;
        std::vector<uint8_t> h = h_in; h.resize(160); std::vector<std::string> out;
        auto tok = [&](const char* tag, const Bn& v, size_t n) { std::vector<uint8_t> b(n); v.to_le(b.data(), n); out.push_back(std::string(tag) + ":" + hex(b.data(), n)); };
        Bn v = mod; unsigned delta = 1 + h[0] % 3;
        if (level >= nw) { if (rel > 0) v = Bn::add(mod, Bn(delta)); else if (rel < 0) v = Bn::sub(mod, Bn(delta)); }
        else {
            int idx = nw - level - 1; for (int i = 0; i < idx; i++) memcpy(&v.w[i], &h[4 + 4 * (size_t) i], 4);
            int64_t w = (int64_t) mod.w[idx] + rel * (int64_t) delta; if (w < 0) w = 0; if (w > 0xFFFFFFFFLL) w = 0xFFFFFFFFLL; v.w[idx] = (uint32_t) w;
        }
        vhex = v.hexstr(nb + 1);
        Bn R = Bn(1).shl(bits), vR = Bn::mul(v, R), rem;
        Bn hi_m; Bn::divmod(vR, mod, hi_m, rem); if (hi_m >= R) hi_m = Bn::sub(R, Bn(1));
        Bn lo_m(0); if (v >= mod) { Bn::divmod(Bn::mul(Bn::sub(v, mod), R), mod, lo_m, rem); lo_m = Bn::add(lo_m, Bn(1)); }
        if (!(hi_m < lo_m)) {
            Bn span = Bn::add(Bn::sub(hi_m, lo_m), Bn(1)), rnd = Bn::from_le(&h[60], nb), m = Bn::add(lo_m, Bn::mod(rnd, span));
            if ((h[1] & 7) == 0) m = hi_m; else if ((h[1] & 7) == 1) m = lo_m;
            tok("T", Bn::sub(vR, Bn::mul(m, mod)), 2 * nb);
        }
        Bn vm = Bn::mod(v, mod), target = Bn::mod(Bn::mul(vm, Bn::mod(R, mod)), mod);
        { int k = (h[2] | (h[3] << 8)) % (bits - 3); unsigned d = (h[108] | 1u); Bn a = Bn::mod(Bn::mul(Bn(1).shl(k), Bn(d)), mod), b = target;
          for (int i = 0; i < k; i++) { if (b.w[0] & 1) b = Bn::add(b, mod); b = b.shr1(); }
          b = div_small(b, d, mod);
          if (!a.is_zero()) { tok("A", a, nb); tok("B", b, nb); } }
        if (want_sqrt) { Bn e = Bn::add(mod, Bn(1)).shr1().shr1(), sq = Bn::powmod(target, e, mod); if (Bn::mulmod(sq, sq, mod) == target) tok("S", sq, nb); }
        return out;
    }
    // Reduction inputs that put the *internal* carries of the row-by-row Montgomery reduction on their boundaries. Row i adds
    // m_i*modulus*2^(W*i) and carries into word i+n; that word of the input never influences any m_j, so it can be solved for:
    // word + (everything carried into it) = 2^W-1 (all ones: a pending carry from the row below then wraps it "in the second add"),
    // = 2^W (exact wrap), = 2^W+1, or left random. W = 64 and 32 (the two word sizes of the back ends); pattern = one choice per row.
    static std::string carry_token(bool is256, int W, const std::vector<uint8_t>& h_in, std::string& pat_out) {
        const Bn& mod = is256 ? K().r : K().q; int bits = is256 ? 256 : 384, n = bits / W; size_t nb = (size_t) bits / 8;
        std::vector<uint8_t> h = h_in; h.resize(200);
        Bn WW = Bn(1).shl(W);
        // -mod^-1 mod 2^W
        uint64_t p0 = mod.low64(), inv = p0; for (int i = 0; i < 6; i++) inv *= 2 - p0 * inv; inv = 0 - inv; if (W == 32) inv &= 0xFFFFFFFFull;
        Bn T = Bn::from_le(&h[8], 2 * nb);
        { Bn top = Bn::mod(Bn::from_le(&h[8 + 2 * nb - 8], 8), Bn(mod.shl(0).w[bits / 32 - 1] ? (uint64_t) mod.w[bits / 32 - 1] : 1)); Bn lowpart = Bn::mod(T, Bn(1).shl(2 * bits - 32)); T = Bn::add(lowpart, top.shl(2 * bits - 32)); }   // top 32-bit word strictly below the modulus' top word: T < modulus*2^bits whatever the words below
        auto word = [&](const Bn& x, int i) { Bn t = x; for (int k = 0; k < W * i; k++) t = t.shr1(); return Bn::mod(t, WW); };   // (slow but tiny n)
        pat_out.clear();
        for (int i = 0; i + 1 < n; i++) {                      // words n .. 2n-2 (the top word stays)
            int choice = h[150 + (size_t) i % 40] % 5; static const char* nm = "RAZOR"; pat_out += nm[choice];
            if (choice == 0 || choice == 4) continue;
            // clear word i+n, simulate rows 0..i, read what arrives at position i+n
            Bn wsel = word(T, i + n); Bn T0 = Bn::sub(T, wsel.shl(W * (i + n)));
            Bn X = T0;
            for (int j = 0; j <= i; j++) { uint64_t xw = word(X, j).low64(); uint64_t m = xw * inv; if (W == 32) m &= 0xFFFFFFFFull; X = Bn::add(X, Bn::mul(Bn(m), mod).shl(W * j)); }
            Bn high = X; for (int k = 0; k < W * (i + n); k++) high = high.shr1();                 // everything at and above position i+n
            Bn above = T0; for (int k = 0; k < W * (i + n + 1); k++) above = above.shr1();          // the input's own words above it
            Bn stuff = Bn::sub(high, above.shl(W));                                                   // what the rows carried into position i+n (0 .. 2^W)
            Bn target = choice == 1 ? Bn::sub(WW, Bn(1)) : choice == 2 ? WW : Bn::add(WW, Bn(1));
            if (Bn::cmp(target, stuff) < 0) continue;
            Bn nw = Bn::sub(target, stuff); if (Bn::cmp(nw, WW) >= 0) continue;
            T = Bn::add(T0, nw.shl(W * (i + n)));
        }
        std::vector<uint8_t> b(2 * nb); T.to_le(b.data(), 2 * nb); return "T:" + hex(b.data(), 2 * nb);
    }
    // TAIL wide tr ra level rel | v=<hex> T:<hex> A:<hex> B:<hex> S:<hex>
    void op_tail(const Op& op) {
        bool is256 = op.arg(0) != 0; int T = is256 ? BK_T512 : BK_T768, F = is256 ? BK_F256 : BK_F384; size_t tr = (size_t) op.arg(1), ra = (size_t) op.arg(2) % 8;
        for (auto& t : op.s) {
            if (t.size() < 3 || t[1] != ':') continue; std::vector<uint8_t> b = unhex(t.substr(2)); Bn v = Bn::from_le(b.data(), b.size());
            if (t[0] == 'T') { set(T, tr, v); env.count("probe:tail_reduction_input_constructed"); }
            else if (t[0] == 'A') { set(F, ra, v); env.count("probe:tail_multiplication_operands_constructed"); }
            else if (t[0] == 'B') set(F, (ra + 1) % 8, v);
            else if (t[0] == 'S') { set(F, (ra + 2) % 8, v); env.count("probe:tail_squaring_operand_constructed"); }
        }
        int level = (int) op.arg(3), rel = (int) op.arg(4);
        if (level >= 100) env.count(strf("probe:reduction_input_with_internal_carries_on_boundaries_w%d", level - 100));
        else env.count(strf("probe:tail_%d_words_equal_next_%s", level, rel < 0 ? "smaller" : rel == 0 ? "equal" : "larger"));
        env.logf("TAIL w%d l%d r%d %s", is256, level, rel, op.s.empty() ? "" : op.s[0].c_str());
    }
    void op_prim(const Op& op) {
        int code = (int) op.arg(0) % JV_PR_COUNT; size_t ro = (size_t) op.arg(1), ra = (size_t) op.arg(2), rb = (size_t) op.arg(3); bool alias = op.arg(4) != 0; int asel = (int) op.arg(5) & 1, bsel = (int) (op.arg(5) >> 1) & 1;
        bool is256 = (code >= JV_PR_BI256_ADD && code <= JV_PR_FP256_SQR) || code == JV_PR_FP256_NEG;
        int B = is256 ? BK_B256 : BK_B384, F = is256 ? BK_F256 : BK_F384, Wd = is256 ? BK_W512 : BK_W768, T = is256 ? BK_T512 : BK_T768;
        int ab, bb, ob;
        switch (code) {
        case JV_PR_BI384_ADD: case JV_PR_BI384_SUB: case JV_PR_BI384_SHL1: case JV_PR_BI384_SHL3: case JV_PR_BI256_ADD: case JV_PR_BI256_SUB: case JV_PR_BI256_SHL1: ab = asel ? F : B; bb = bsel ? F : B; ob = B; break;
        case JV_PR_BI768_MUL: case JV_PR_BI512_MUL: ab = asel ? F : B; bb = bsel ? F : B; ob = (ab == F && bb == F) ? T : Wd; break;
        case JV_PR_BI768_SQR: case JV_PR_BI512_SQR: ab = asel ? F : B; bb = ab; ob = ab == F ? T : Wd; break;
        case JV_PR_FP384_REDC: case JV_PR_FP256_REDC: ab = T; bb = T; ob = F; break;
        case JV_PR_FP384_ADD: case JV_PR_FP384_SUB: case JV_PR_FP384_DBL: case JV_PR_FP384_NEG: case JV_PR_FP256_ADD: case JV_PR_FP256_SUB: case JV_PR_FP256_DBL: case JV_PR_FP256_NEG:
            // "all 384-bit operand pairs": modular add/subtract/double/negate also meet operands that are not reduced (bank B) when the plan says so
            ab = (op.arg(5) & 4) && asel ? B : F; bb = (op.arg(5) & 4) && bsel ? B : F; ob = F; break;
        default: ab = F; bb = F; ob = F; break;
        }
        size_t ia = ra % bank_regs[ab], ib = rb % bank_regs[bb], io = ro % bank_regs[ob];
        bool can_alias = ob == ab;
        if (alias && can_alias) io = ia;
        // b is declared __restrict against the output: never alias them (out == a is permitted by the interface)
        if (ob == bb && io == ib) ib = (ib + 1) % bank_regs[bb];
        if (ob == bb && io == ib) return;
        env.lib_calls++;
        int flag = R.jv_prim(code, regs[ob][io].p, regs[ab][ia].p, regs[bb][ib].p);
        // the result is a function of the operands alone: the same call into a second output object that held something else before must
        // give the same bytes and flag (a path that forgets to store leaves whatever the destination - or the routine's dead stack - held)
        if (!(ob == ab && io == ia) && flag != -77 && flag != -78) {
            // (when the assembly routines are entered with poisoned state, the repeat uses ANOTHER entry state: CF/OF and scratch registers are not operands either)
            int em = (int) plan.c("entry", 0); if (em) R.jv_set_entry_mode(em % 4 + 1);
            Buf o2(bank_bytes[ob], 0x5C); env.lib_calls++; int flag2 = R.jv_prim(code, o2.p, regs[ab][ia].p, regs[bb][ib].p);
            if (em) R.jv_set_entry_mode(em);
            if (flag2 != flag || memcmp(o2.p, regs[ob][io].p, bank_bytes[ob]) != 0)
                env.fail(env.focus == "C20" ? "C20" : "C03", "result-depends-only-on-operands", strf("primitive %d gives %s into one output object and %s into another that held different bytes before the call (same operands)", code, regs[ob][io].hexs().c_str(), o2.hexs().c_str()));
        }
        if (flag == -77) env.fail("C03", "arm-assembly-routine-fault", strf("primitive %d: %s", code, arm_last_fault().c_str()));
        if (flag == -78) env.fail("C03", "x86-assembly-routine-fault", strf("primitive %d: the routine returned with a callee-saved register (rbx, rbp, r12-r15) changed or with the direction flag set", code));
        env.logf("PRIM %d o%d.%zu a%d.%zu b%d.%zu al%d flag=%d out=%s", code, ob, io, ab, ia, bb, ib, io == ia && ob == ab, flag, regs[ob][io].hexs().c_str());
        env.count(strf("op:prim_%d", code));
        if (ob == F) { if (Bn::from_le(regs[ob][io].p, bank_bytes[ob]) >= (is256 ? K().r : K().q)) env.count("probe:field_result_not_reduced"); }
        if (flag == 1) env.count("probe:carry_or_borrow_out");
        env.add_case(strf("prim %d al%d f%d", code, io == ia && ob == ab, flag), true);
    }
    void run() {
        // entry-state poisoning (x86-64 assembly replicas only; a no-op elsewhere): the primitives that are assembly routines are entered
        // directly, with CF/OF as the plan says and junk in every register the ABI leaves undefined
        struct Mode { Rep& R; int m; Mode(Rep& r, int mm) : R(r), m(mm) { if (m) R.jv_set_entry_mode(m); } ~Mode() { if (m) R.jv_set_entry_mode(0); } } mode(R, (int) plan.c("entry", 0));
        if (plan.c("entry", 0)) env.count("fault:assembly_routines_entered_with_poisoned_flags_and_registers");
        for (size_t i = 0; i < plan.ops.size(); i++) {
            const Op& op = plan.ops[i]; env.step = (int) i;
            if (op.kind == "LOAD") op_load(op); else if (op.kind == "PAIR") op_pair(op); else if (op.kind == "PRIM") op_prim(op); else if (op.kind == "TAIL") op_tail(op);
        }
    }
};

struct PrimScenario : Scenario {
    const char* name() const override { return "prim"; }
    Plan generate(uint64_t seed, const std::map<std::string, int64_t>& knobs) override {
        Rng r(seed); Plan p; p.scenario = name();
        auto kn = [&](const char* k, int64_t d) { auto it = knobs.find(k); return it == knobs.end() ? d : it->second; };
        auto rh = [&](size_t n) { std::vector<uint8_t> b(n); r.fill(b.data(), n); return hex(b.data(), n); };
        for (int b = 0; b < BK_COUNT; b++) for (size_t i = 0; i < bank_regs[b]; i++) p.ops.push_back({"LOAD", {b, (int64_t) i, r.chance(1, 2) ? 0 : (int64_t) r.below(16)}, {rh(bank_bytes[b])}});
        if (kn("entry", 0)) p.cfg["entry"] = 1 + (int64_t) r.below(4);
        int n = (int) kn("ops", 400);
        for (int i = 0; i < n; i++) {
            int k = r.range(0, 19);
            if (k == 0) { int b = (int) r.below(BK_COUNT); p.ops.push_back({"LOAD", {b, (int64_t) r.below(8), (int64_t) r.below(16)}, {rh(bank_bytes[b])}}); }
            else if (k == 1 && r.chance(1, 2)) {
                bool w = r.chance(1, 4); int64_t tr = (int64_t) r.below(4), ra = (int64_t) r.below(8); bool sq = !w && r.chance(1, 3);
                int lvl = (int) r.below(w ? 9 : 13), rl = (int) r.below(3); std::vector<uint8_t> hb(160); r.fill(hb.data(), 160); std::string vhex;
                std::vector<std::string> toks = PrimRun::tail_tokens(w, lvl, rl, sq, hb, vhex); toks.insert(toks.begin(), "v=" + vhex);
                sq = false; for (auto& t : toks) if (t[0] == 'S' && t[1] == ':') sq = true;
                p.ops.push_back({"TAIL", {w, tr, ra, lvl, rl - 1}, toks});
                // the reduction, the multiplication and the squaring that consume them (output registers chosen so that the operands survive)
                p.ops.push_back({"PRIM", {w ? JV_PR_FP256_REDC : JV_PR_FP384_REDC, (ra + 3) % 8, tr, tr, 0, 0}, {}});
                p.ops.push_back({"PRIM", {w ? JV_PR_FP256_MUL : JV_PR_FP384_MUL, (ra + 4) % 8, ra, (ra + 1) % 8, 0, 0}, {}});
                if (sq) p.ops.push_back({"PRIM", {JV_PR_FP384_SQR, (ra + 5) % 8, (ra + 2) % 8, 0, 0, 0}, {}});
            }
            else if (k == 2 && r.chance(1, 2)) {
                bool w = r.chance(1, 4); int64_t tr = (int64_t) r.below(4); int W = r.chance(1, 2) ? 64 : 32; std::vector<uint8_t> hb(200); r.fill(hb.data(), 200); std::string pat;
                std::string tok = PrimRun::carry_token(w, W, hb, pat);
                p.ops.push_back({"TAIL", {w, tr, 0, 100 + W, 0}, {"carries=" + pat, tok}});
                p.ops.push_back({"PRIM", {w ? JV_PR_FP256_REDC : JV_PR_FP384_REDC, (int64_t) r.below(8), tr, tr, 0, 0}, {}});
            }
            else if (k <= 3) p.ops.push_back({"PAIR", {r.chance(1, 3), (int64_t) r.below(8), (int64_t) r.below(8), (int64_t) r.below(8)}, {rh(48)}});
            else p.ops.push_back({"PRIM", {(int64_t) r.below(JV_PR_COUNT), (int64_t) r.below(8), (int64_t) r.below(8), (int64_t) r.below(8), r.chance(1, 3), (int64_t) r.below(kn("unreduced", 0) ? 8 : 4)}, {}});
        }
        return p;
    }
    void run(const Plan& plan, RunEnv& env) override { PrimRun run(env, plan); run.run(); }
};

static ScenarioReg reg_prim(new PrimScenario());

} // namespace jv
